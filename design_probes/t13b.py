import sigtools, inspect
from sigtools import wrappers
@wrappers.decorator
def deco(func, *args, dp=False, **kwargs):
    return ('deco', dp, func(*args, **kwargs))
class K:
    @deco
    def m(self, x): return ('m', x)
@deco
def m2(self, x): return ('m2', x)
raw=K.__dict__['m']
print('raw dict obj:', sigtools.signature(raw), '| K.m:', sigtools.signature(K.m), '| module-level:', sigtools.signature(m2), '| inspect K.m:', inspect.signature(K.m))
print('K.m again:', sigtools.signature(K.m), '| fresh get:', sigtools.signature(raw.__get__(None, K)))
