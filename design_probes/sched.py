import sys, threading, functools, inspect, os
import sigtools
from sigtools import specifiers
SIG_DIR=os.path.dirname(sigtools.__file__)
class Sched:
    """Cooperative deterministic scheduler: one thread runs at a time; preemption points = 'line' events in sigtools code."""
    def __init__(self, fns, plan):
        # plan: dict {(tid, point_index): next_tid}  -- preempt thread tid before its point_index-th line, switch to next_tid
        self.fns=fns; self.plan=plan; self.n=len(fns)
        self.cv=threading.Condition(); self.current=0; self.done=[False]*self.n
        self.points=[0]*self.n; self.results=[None]*self.n; self.trace_log=[]
    def _tracer(self, tid):
        def local(frame, event, arg):
            if event=='line':
                self.points[tid]+=1
                nxt=self.plan.get((tid,self.points[tid]))
                if nxt is not None and not self.done[nxt]:
                    self.trace_log.append((tid,self.points[tid],frame.f_code.co_name,frame.f_lineno,'->',nxt))
                    self._switch(tid,nxt)
            return local
        def glob(frame, event, arg):
            if frame.f_code.co_filename.startswith(SIG_DIR): return local
            return None
        return glob
    def _switch(self, me, nxt):
        with self.cv:
            self.current=nxt; self.cv.notify_all()
            while self.current!=me: self.cv.wait()
    def _run(self, tid):
        with self.cv:
            while self.current!=tid: self.cv.wait()
        sys.settrace(self._tracer(tid))
        try:
            try: self.results[tid]=('ok',self.fns[tid]())
            except BaseException as e: self.results[tid]=('exc',repr(e))
        finally:
            sys.settrace(None)
            with self.cv:
                self.done[tid]=True
                # hand over to next unfinished thread
                for j in range(self.n):
                    if not self.done[j]: self.current=j; break
                self.cv.notify_all()
    def run(self):
        ts=[threading.Thread(target=self._run,args=(i,)) for i in range(self.n)]
        for t in ts: t.start()
        for t in ts: t.join(30)
        assert not any(t.is_alive() for t in ts), 'deadlock'
        return self.results
def inner(x, y, *, z): pass
def mk():
    @functools.wraps(inner)
    def w(a, *args, **kwargs): return inner(1, *args, **kwargs)
    return w
if __name__=='__main__':
    f=mk(); seq=str(sigtools.signature(f)); seq_i=str(inspect.signature(f))
    # count points for thread 0 alone
    s=Sched([lambda: str(sigtools.signature(f))],{}); s.run(); N=s.points[0]; print('points',N, s.results)
    bad=[]
    for p in range(1,N+1):
        f=mk()
        s=Sched([lambda: str(sigtools.signature(f)), lambda: str(sigtools.signature(f))],{(0,p):1})
        r=s.run()
        ok = r[0]==('ok',seq) and r[1]==('ok',seq) and '__wrapped__' in vars(f)
        if not ok: bad.append((p,s.trace_log,r,'__wrapped__' in vars(f)))
    print('1-preemption schedules',N,'bad',len(bad))
    for b in bad[:5]: print(b)
    bad=[]
    for p in range(1,N+1):
        f=mk()
        s=Sched([lambda: str(sigtools.signature(f)), lambda: str(inspect.signature(f))],{(0,p):1})
        r=s.run()
        ok = r[0]==('ok',seq) and r[1]==('ok',seq_i) and '__wrapped__' in vars(f)
        if not ok: bad.append((p,s.trace_log,r))
    print('vs inspect: bad',len(bad))
    for b in bad[:3]: print(b)
