import u, itertools, collections, sys, multiprocessing as mp
from sigtools import signatures as sg
U=u.universe(['a','b','c'],3, star_names=('args',), kw_names=('kwargs',))
sigs={s_:u.sig_from_str(s_) for s_ in U}
NAMES=['a','b','c','zz','yy']
SH=list(u.shapes(NAMES,4))
def accset(sig):
    return {(n,frozenset(k)) for n,k in SH if u.cp_accepts(sig,n,k)}
def work(A):
    out=[];st=collections.Counter()
    sig=sigs[A]
    ponames={p.name for p in sig.parameters.values() if p.kind==u.PO}
    cand=[n for n in list(sig.parameters)+['zz'] if n not in ponames and sig.parameters.get(n,None) is None or (n in sig.parameters and sig.parameters[n].kind in (u.POK,u.KWO))]
    A_acc=accset(sig)
    maxn=len(sig.parameters)+2
    for n in range(maxn+1):
        for r in range(len(cand)+1):
            for combo in itertools.combinations(cand,r):
                results={}
                for perm in itertools.permutations(combo):
                    try: m=sg.mask(sig,n,*perm); results[perm]=str(m)
                    except ValueError as e: m=None; results[perm]='ERR'
                    except Exception as e: out.append(('EXC',A,n,perm,repr(e))); continue
                    st['cases']+=1
                    # expected: set of shapes (np,K) with K disjoint from combo such that sig accepts (np+n, K|combo)
                    exp={(np_,K) for (np_,K) in ((x[0]-n,x[1]-frozenset(combo)) for x in A_acc if x[0]>=n and frozenset(combo)<=x[1])}
                    # feasibility: any call at all (beyond shapes enumerated: shapes cover up to 4 pos, all names) 
                    feasible = feas(sig,n,combo)
                    if m is None:
                        if feasible: out.append(('RAISE-BUT-FEASIBLE',A,n,perm))
                        continue
                    if not feasible: out.append(('NORAISE-INFEASIBLE',A,n,perm,str(m)))
                    got={(np_,K) for (np_,K) in accset(m) if not (K & frozenset(combo))}
                    # restrict to noncolliding
                    kp=u.kwpassable(m); allnames=set(sig.parameters)
                    def nc(K): return all(k in kp or k not in allnames for k in K)
                    got={x for x in got if nc(x[1])}
                    exp={x for x in exp if nc(x[1]) and x[0]+n<=4}
                    got={x for x in got if x[0]+n<=4}
                    if got-exp: out.append(('UNSOUND',A,n,perm,str(m),sorted(map(lambda x:(x[0],sorted(x[1])),got-exp))[:2]))
                    if exp-got: out.append(('INEXACT',A,n,perm,str(m),sorted(map(lambda x:(x[0],sorted(x[1])),exp-got))[:2]))
                if len(set(results.values()))>1: out.append(('ORDER',A,n,results))
    return out,st
def feas(sig,n,combo):
    # exists extra positionals m>=0 and extra keywords K (from all param names) s.t. accepted
    params=list(sig.parameters.values())
    allk=[p.name for p in params if p.kind in (u.POK,u.KWO)]
    for m in range(len(params)+1):
        for r in range(len(allk)+1):
            for K in itertools.combinations(allk,r):
                if set(K)&set(combo): continue
                if u.cp_accepts(sig,n+m,tuple(K)+tuple(combo)): return True
    return False
if __name__=='__main__':
    print(len(U))
    with mp.Pool(16) as p: res=p.map(work,U,chunksize=4)
    tot=collections.Counter(); outs=[]
    for o,s_ in res: tot.update(s_); outs+=o
    print(tot); print(collections.Counter(o[0] for o in outs))
    seen=collections.Counter()
    for o in outs:
        seen[o[0]]+=1
        if seen[o[0]]<=12: print(o)
