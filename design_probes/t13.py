import sigtools, inspect
from sigtools import wrappers
@wrappers.decorator
def deco(func, *args, dp=False, **kwargs):
    return ('deco', dp, func(*args, **kwargs))
class K:
    @deco
    def m(self, x): return ('m', x)
    @staticmethod
    @deco
    def s(x): return ('s', x)
k=K()
for name,get in (('k.m sig',lambda: sigtools.signature(k.m)),('k.m insp',lambda: inspect.signature(k.m)),('K.m',lambda: sigtools.signature(K.m)),('k.s',lambda: sigtools.signature(k.s)),('call',lambda:k.m(3)),('k.m sig again',lambda: sigtools.signature(k.m))):
    try: print(name, get())
    except Exception as e: print(name,'RAISES',type(e).__name__,e)
