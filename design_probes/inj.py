import sys, functools, inspect, os
import sigtools
from sigtools import specifiers, modifiers, support, wrappers
SIG_DIR=os.path.dirname(sigtools.__file__)
class Injected(Exception): pass
def in_sigtools(frame):
    return frame is not None and frame.f_code.co_filename.startswith(SIG_DIR) and '/tests/' not in frame.f_code.co_filename
class Injector:
    def __init__(self, k, exc=Injected): self.k=k; self.n=0; self.exc=exc; self.where=None; self.log=[]
    def prof(self, frame, event, arg):
        if event=='call':
            # python-level call: frame is callee; caller is frame.f_back
            if not in_sigtools(frame) and in_sigtools(frame.f_back):
                self.n+=1; self.log.append(('py',frame.f_code.co_name))
                if self.n==self.k:
                    self.where=('py',frame.f_code.co_name, frame.f_back.f_code.co_name, frame.f_back.f_lineno)
                    raise self.exc('injected')
        elif event=='c_call':
            if in_sigtools(frame):
                self.n+=1; self.log.append(('c',getattr(arg,'__name__',str(arg))))
                if self.n==self.k:
                    self.where=('c',getattr(arg,'__name__',str(arg)), frame.f_code.co_name, frame.f_lineno)
                    raise self.exc('injected')
def snapshot(f):
    d={}
    seen=set()
    def rec(o,path,depth=0):
        if id(o) in seen or depth>4: return
        seen.add(id(o))
        try: dd=dict(vars(o))
        except TypeError: dd={}
        d[path]=sorted((k,id(v)) for k,v in dd.items())
        for k in ('__wrapped__','__signature__'):
            if k in dd: rec(dd[k],path+'.'+k,depth+1)
    rec(f,'f'); return d
def run(make, exc=Injected, maxk=400):
    res=[]
    k=1
    while k<maxk:
        f=make()
        before=snapshot(f)
        inj=Injector(k,exc)
        sys.setprofile(inj.prof)
        try:
            try: sigtools.signature(f); outcome='ok'
            except BaseException as e: outcome=type(e).__name__
        finally:
            sys.setprofile(None)
        after=snapshot(f)
        guard=set(specifiers.as_forged.currently_computing)
        if inj.where is None:
            break
        if before!=after or guard: res.append((k,inj.where,outcome,before,after,guard))
        k+=1
    return k-1,res
def inner(x, y, *, z): pass
def mk_wraps():
    @functools.wraps(inner)
    def w(a, *args, **kwargs): return inner(1, *args, **kwargs)
    return w
def mk_sigattr():
    def w(a, *args, **kwargs): return inner(1, *args, **kwargs)
    w.__signature__=inspect.signature(inner)
    return w
def mk_forger():
    @specifiers.forwards_to_function(inner, 1)
    def w(a, *args, **kwargs): return inner(1, *args, **kwargs)
    return w
def mk_forger_emulate():
    @specifiers.forwards_to_function(inner, 1, emulate=True)
    def w(a, *args, **kwargs): return inner(1, *args, **kwargs)
    return w
def mk_mod():
    @functools.wraps(inner)
    @modifiers.kwoargs('a')
    def w(a, *args, **kwargs): return inner(1, *args, **kwargs)
    return w
def mk_deco():
    @wrappers.decorator
    def deco(func, *args, dp=False, **kwargs): return func(*args, **kwargs)
    @deco
    def w(x, y): pass
    return w
if __name__=='__main__':
    for exc in (Injected, AttributeError, ValueError, TypeError):
      for mk in (mk_wraps, mk_sigattr, mk_forger, mk_forger_emulate, mk_mod, mk_deco):
        n,res=run(mk,exc)
        print(exc.__name__, mk.__name__, 'crossings',n,'violations',len(res))
        for r in res[:3]: print('    ',r[0],r[1],r[2]); print('       before',r[3]); print('       after ',r[4], r[5])
