import u, itertools, collections, multiprocessing as mp, inspect, warnings
from sigtools import signatures as sg, support
U=u.universe(['a','b','c'],3, star_names=('args',), kw_names=('kwargs',))
NAMES=['a','b','c','zz']
def key(sig): return [(p.name,p.kind,p.default,p.annotation) for p in sig.parameters.values()]
def work(A):
    out=[];st=collections.Counter()
    f=support.f(A); sig=support.s(A)
    # round trip via func_from_sig
    try:
        f2=support.func_from_sig(sig); s2=sg.signature(f2)
        if key(s2)!=key(sig): out.append(('RT',A,str(s2)))
    except Exception as e: out.append(('RT-EXC',A,repr(e)))
    haspo=any(p.kind==u.PO for p in sig.parameters.values())
    for ua,up,uk in itertools.product([False,True],repeat=3):
        if haspo and up is False and False: pass
        try:
            s3=support.s(A,use_modifiers_annotate=ua,use_modifiers_posoargs=up,use_modifiers_kwoargs=uk)
        except Exception as e:
            out.append(('OPT-EXC',A,(ua,up,uk),repr(e)[:100])); continue
        st['opts']+=1
        k3=key(s3); k=key(sig)
        if uk:
            # up to order of kwo
            srt=lambda kk:[x for x in kk if x[1]!=u.KWO]+sorted([x for x in kk if x[1]==u.KWO],key=lambda x:x[0])
            if srt(k3)!=srt(k): out.append(('OPT',A,(ua,up,uk),str(s3)))
        elif k3!=k: out.append(('OPT',A,(ua,up,uk),str(s3)))
    vk=any(p.kind==u.VK for p in sig.parameters.values())
    po={p.name for p in sig.parameters.values() if p.kind==u.PO}
    for np_,K in u.shapes(NAMES,5):
        args=tuple(100+i for i in range(np_)); kwargs={k:'k_'+k for k in K}
        if vk and po&set(K): continue
        st['calls']+=1
        try: r=f(*args,**kwargs)
        except TypeError: r=None
        try: b=support.bind_callsig(sig,args,kwargs)
        except TypeError: b=None
        if r!=b: out.append(('BIND',A,args,kwargs,r,b))
    # make_up_callsigs completeness
    cs=support.make_up_callsigs(sig,extra=2)
    named=[p.name for p in sig.parameters.values() if p.kind in (u.PO,u.POK,u.KWO)]+['__make_up_callsigs__extra_0','__make_up_callsigs__extra_1']
    got={(len(a),frozenset(k)) for a,k in cs}
    for n in range(len(named)+1):
        for r in range(len(named)+1):
            for K in itertools.combinations(named,r):
                if (n,frozenset(K)) not in got: out.append(('MAKEUP',A,n,K)); break
    return out,st
if __name__=='__main__':
    with mp.Pool(16) as p: res=p.map(work,U,chunksize=4)
    tot=collections.Counter(); outs=[]
    for o,s_ in res: tot.update(s_); outs+=o
    print(tot); print(collections.Counter(o[0] for o in outs))
    seen=collections.Counter()
    for o in outs:
        seen[o[0]]+=1
        if seen[o[0]]<=10: print(o)
