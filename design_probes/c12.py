import u, itertools, collections, functools, multiprocessing as mp, inspect
import sigtools
from sigtools import signatures as sg, support, modifiers
U=u.universe(['a','b','c','d'],4, star_names=('args',), kw_names=('kwargs',))
NAMES=['a','b','c','d','zz']
def expected_sig(fsig, kwo, poso):
    """independent model: returns list of (name, kind, default) or raises ValueError"""
    ps=list(fsig.parameters.values())
    names={p.name for p in ps}
    if (set(kwo)|set(poso))-names: raise ValueError('unknown')
    if set(kwo)&set(poso): raise ValueError('both')
    out_pos=[];out_kwo=[];rest=[]
    seen_regular=False
    res=[]
    for p in ps:
        if p.kind==u.POK:
            if p.name in poso:
                if seen_regular: raise ValueError('poso after regular')
                res.append((p.name,u.PO,p.default))
            elif p.name in kwo:
                out_kwo.append((p.name,u.KWO,p.default))
            else:
                seen_regular=True
                res.append((p.name,u.POK,p.default))
        else:
            if p.name in kwo and p.kind!=u.KWO: raise ValueError('bad kind')
            if p.name in poso and p.kind!=u.PO: raise ValueError('bad kind')
            if p.kind==u.VK:
                res.extend(out_kwo); out_kwo=None
            res.append((p.name,p.kind,p.default))
    if out_kwo: res.extend(out_kwo)
    # validity of python signature: non-default after default among positional
    return res
def bind_model(params, args, kwargs):
    """params: list of (name,kind,default). returns dict name->value or raises TypeError. CPython semantics"""
    positional=[p for p in params if p[1] in (u.PO,u.POK)]
    va=[p for p in params if p[1]==u.VP]; vk=[p for p in params if p[1]==u.VK]
    out={}
    if len(args)>len(positional) and not va: raise TypeError
    for p,v in zip(positional,args): out[p[0]]=v
    if va: out[va[0][0]]=tuple(args[len(positional):])
    if vk: out[vk[0][0]]={}
    kwn={p[0] for p in params if p[1] in (u.POK,u.KWO)}
    for k,v in kwargs.items():
        if k in kwn:
            if k in out: raise TypeError
            out[k]=v
        elif vk: out[vk[0][0]][k]=v
        else: raise TypeError
    for p in params:
        if p[0] not in out:
            if p[2] is inspect.Parameter.empty: raise TypeError
            out[p[0]]=p[2]
    return out
def work(A):
    out=[];st=collections.Counter()
    f0=support.f(A); fsig=sg.signature(f0)
    named=[p.name for p in fsig.parameters.values()]
    cands=named+['zz']
    for r1 in range(len(cands)+1):
      for kwo in itertools.combinations(cands,r1):
        for r2 in range(0,len(cands)+1-r1):
          for poso in itertools.combinations([c for c in cands if c not in kwo] + ([kwo[0]] if kwo else []),r2):
            if not kwo and not poso: continue
            st['selections']+=1
            f=support.f(A)
            try: exp=expected_sig(fsig,kwo,poso)
            except ValueError: exp=None
            try:
                g=f
                if kwo: g=modifiers.kwoargs(*kwo)(g)
                if poso: g=modifiers.posoargs(*poso)(g)
            except ValueError:
                if exp is not None: out.append(('RAISED',A,kwo,poso))
                st['raised']+=1
                continue
            except Exception as e:
                out.append(('EXC',A,kwo,poso,repr(e))); continue
            if exp is None:
                out.append(('NORAISE',A,kwo,poso,str(sigtools.signature(g)))); continue
            adv=sigtools.signature(g); adv2=inspect.signature(g)
            got=[(p.name,p.kind,p.default) for p in adv.parameters.values()]
            if got!=exp or str(adv)!=str(adv2): out.append(('SIG',A,kwo,poso,str(adv),str(adv2),exp)); continue
            # valid python signature? defaults order may be invalid -> exp not constructible... 
            # calls with distinguishable values
            for np_,K in u.shapes(NAMES,5):
                args=tuple(100+i for i in range(np_)); kwargs={k:'k_'+k for k in K}
                # exclude: PO name by keyword alongside **kwargs
                if any(e[0] in K and e[1]==u.PO for e in exp) and any(e[1]==u.VK for e in exp): continue
                st['calls']+=1
                try: expv=bind_model(exp,args,kwargs)
                except TypeError: expv=None
                try: gotv=g(*args,**kwargs)
                except TypeError: gotv=None
                if expv!=gotv: out.append(('CALL',A,kwo,poso,str(adv),args,kwargs,expv,gotv)); break
    return out,st
if __name__=='__main__':
    import sys
    UU=[x for x in U if x.count(',')<=3][::int(sys.argv[1]) if len(sys.argv)>1 else 1]
    print(len(UU))
    with mp.Pool(16) as p: res=p.map(work,UU,chunksize=4)
    tot=collections.Counter(); outs=[]
    for o,s_ in res: tot.update(s_); outs+=o
    print(tot); print(collections.Counter(o[0] for o in outs))
    seen=collections.Counter()
    for o in outs:
        seen[o[0]]+=1
        if seen[o[0]]<=12: print(o)
