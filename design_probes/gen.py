"""prototype forwarding-program grammar"""
import random, linecache, itertools, collections, functools, sys, types
import u
import sigtools
from sigtools import signatures as sg, specifiers, support
_counter=itertools.count()
def load(src, extra_globals=None):
    fn='<verif-gen-%d>'%next(_counter)
    linecache.cache[fn]=(len(src),None,src.splitlines(True),fn)
    g={'__name__':'verifgen','functools':functools}
    g.update(extra_globals or {})
    exec(compile(src,fn,'exec'),g)
    return g
OUTERS=[s for s in u.universe(['a','b'],2,star_names=('args',),kw_names=('kwargs',)) if '*args' in s or '**kwargs' in s]
CALLEES=u.universe(['x','y','z','a'],3,star_names=('args','p'),kw_names=('kwargs','k'))
CONTEXTS=['return {C}','r = {C}\nreturn r','if FLAG:\n    return {C}','try:\n    return {C}\nfinally:\n    pass','with CTX:\n    return {C}','return [{C} for _ in (1,)][0]','def _n():\n    return {C}\nreturn _n()','return (lambda: {C})()','DECOY(1)\nreturn DECOY({C})']
ROUTES=['global','closure','attr','method','param']
def gen_case(rnd):
    O=rnd.choice(OUTERS); I=rnd.choice(CALLEES)
    osig=support.s(O); isig=support.s(I)
    has_va='*args' in O; has_vk='**kwargs' in O
    ipos=[p.name for p in isig.parameters.values() if p.kind in (u.PO,u.POK)]
    ikw=[p.name for p in isig.parameters.values() if p.kind in (u.POK,u.KWO)]
    ncalls=rnd.choice([1,1,1,2])
    calls=[]
    for _ in range(ncalls):
        n=rnd.choice([0,0,1,2]) 
        names=rnd.sample(ikw+['q'],rnd.choice([0,0,1,2,2]) if len(ikw)+1>=2 else rnd.choice([0,1]))
        va=rnd.choice(['own','own','none','other']) if has_va else rnd.choice(['none','none','other'])
        vk=rnd.choice(['own','own','none','other']) if has_vk else rnd.choice(['none','none','other'])
        calls.append(dict(n=n,names=names,va=va,vk=vk))
    ctx=rnd.choice(CONTEXTS); route=rnd.choice(ROUTES)
    return dict(O=O,I=I,calls=calls,ctx=ctx,route=route)
def render(case):
    O,I,route=case['O'],case['I'],case['route']
    onames=[p for p in support.s(O).parameters]
    lines=[]
    ret='{'+', '.join('%r: %s'%(n,n) for n in support.s(I).parameters)+'}'
    def callexpr(c,ref):
        parts=[('a' if 'a' in onames and i==0 else str(10+i)) for i in range(c['n'])]
        if c['va']=='own': parts.append('*args')
        elif c['va']=='other': parts.append('*HIDDEN_ARGS')
        parts+=['%s=%d'%(nm,20+i) for i,nm in enumerate(c['names'])]
        if c['vk']=='own': parts.append('**kwargs')
        elif c['vk']=='other': parts.append('**HIDDEN_KW')
        return '%s(%s)'%(ref,', '.join(parts))
    ref={'global':'callee','closure':'cal','attr':'NS.sub.callee','method':'self.callee','param':'fn'}[route]
    body=[]
    for j,c in enumerate(case['calls']):
        C=callexpr(c,ref)
        if j<len(case['calls'])-1: body.append('_r%d = %s'%(j,C))
        else: body+=case['ctx'].format(C=C).split('\n')
    body.append('return None')
    ind=lambda ls,n: [' '*n+l for l in ls]
    pre=['FLAG = True','HIDDEN_ARGS = ()','HIDDEN_KW = {}','def DECOY(*a, **k): return a[0] if a else None',
         'class _Ctx:','    def __enter__(self): return self','    def __exit__(self, *a): return False','CTX = _Ctx()']
    if route=='method':
        src=pre+['class K:']+ind(['def callee(self, %s):'%I if I else 'def callee(self):','    return %s'%ret,
             'def wrapper(self, %s):'%O]+ind(body,4),4)+['OBJ = K()','target = OBJ.wrapper','callee = OBJ.callee']
    elif route=='param':
        src=pre+['def callee(%s):'%I,'    return %s'%ret,'def wrapper_(fn, %s):'%O]+ind(body,4)+['target = functools.partial(wrapper_, callee)','wrapper=wrapper_']
    elif route=='closure':
        src=pre+['def callee(%s):'%I,'    return %s'%ret,'def _mk(cal):','    def wrapper(%s):'%O]+ind(body,8)+['    return wrapper','target = _mk(callee)']
    elif route=='attr':
        src=pre+['def callee(%s):'%I,'    return %s'%ret,'class _NS: pass','NS = _NS(); NS.sub = _NS(); NS.sub.callee = callee','def wrapper(%s):'%O]+ind(body,4)+['target = wrapper']
    else:
        src=pre+['def callee(%s):'%I,'    return %s'%ret,'def wrapper(%s):'%O]+ind(body,4)+['target = wrapper']
    return '\n'.join(src)+'\n'
def expected(case,g):
    target=g['target']; callee=g['callee']
    plain=sg.signature(target)
    base = plain
    sigs=[]
    if case['route']=='param':
        # forwards computed on wrapper_ then masked by partial
        base=sg.signature(g['wrapper_'])
    elif case['route']=='method':
        base=sg.signature(g['K'].__dict__['wrapper'])
    for c in case['calls']:
        uva=c['va']=='own'; uvk=c['vk']=='own'
        if not (uva or uvk): continue
        try:
            sigs.append(sg.forwards(base, specifiers.signature(callee), c['n'], *c['names'],
                use_varargs=uva,use_varkwargs=uvk,hide_args=c['va']=='other',hide_kwargs=c['vk']=='other'))
        except ValueError: return plain,'plain(incompat)'
    if not sigs: return plain,'plain(noforward)'
    try: m=sg.merge(*sigs)
    except ValueError: return plain,'plain(merge)'
    if case['route']=='param': m=sg.mask(m,1)  # partial binds fn
    elif case['route']=='method': m=sg.mask(m,1)
    return m,'fwd'
if __name__=='__main__':
    rnd=random.Random(int(sys.argv[1]) if len(sys.argv)>1 else 0)
    st=collections.Counter(); bad=[]
    for i in range(int(sys.argv[2]) if len(sys.argv)>2 else 2000):
        case=gen_case(rnd); src=render(case)
        try: g=load(src)
        except SyntaxError as e: st['syntax']+=1; continue
        try: got=sigtools.signature(g['target'])
        except Exception as e: bad.append(('EXC',case,repr(e))); continue
        exp,kind=expected(case,g)
        st[kind]+=1
        if str(got)!=str(exp): bad.append(('DIFF',case,str(got),str(exp),kind)); st['diff:'+kind+':'+case['route']]+=1
    print(st)
    for b in bad[:25]: print(b)
