import u, itertools, collections, sys, multiprocessing as mp, random
from sigtools import signatures as sg
U=u.universe(['a','b','c'],2, star_names=('args','p'), kw_names=('kwargs','k'))
sigs={s_:u.sig_from_str(s_,name='f%d'%i) for i,s_ in enumerate(U)}
def E(*a,**k):
    try: return sg.embed(*a,**k)
    except sg.IncompatibleSignatures: return None
def work(seed):
    rnd=random.Random(seed); out=[]; st=collections.Counter()
    for _ in range(40000):
        A,B,C=[rnd.choice(U) for _ in range(3)]
        a,b,c=sigs[A],sigs[B],sigs[C]
        for uva,uvk in itertools.product([True,False],repeat=2):
            try:
                x=E(a,b,c,use_varargs=uva,use_varkwargs=uvk)
                ab=E(a,b,use_varargs=uva,use_varkwargs=uvk)
                y=E(ab,c,use_varargs=uva,use_varkwargs=uvk) if ab is not None else None
            except Exception as e:
                out.append(('EXC',A,B,C,uva,uvk,repr(e))); continue
            st['n']+=1
            if x is None and y is None: st['bothraise']+=1; continue
            if (x is None)!=(y is None): out.append(('RAISEDIFF',A,B,C,uva,uvk,str(x),str(y))); continue
            if [str(p) for p in x.parameters.values()]!=[str(p) for p in y.parameters.values()]: out.append(('PARAMS',A,B,C,uva,uvk,str(x),str(y)))
            else:
                st['eq']+=1
                sx={k:v for k,v in x.sources.items() if k!='+depths'}; sy={k:v for k,v in y.sources.items() if k!='+depths'}
                if sx!=sy: st['srcdiff']+=1
                if x.sources['+depths']!=y.sources['+depths']: st['depthdiff']+=1
    return out,st
if __name__=='__main__':
    with mp.Pool(16) as p: res=p.map(work,range(16))
    tot=collections.Counter(); outs=[]
    for o,s_ in res: tot.update(s_); outs+=o
    print(tot); print(collections.Counter(o[0] for o in outs))
    seen=collections.Counter()
    for o in outs:
        seen[o[0]]+=1
        if seen[o[0]]<=10: print(o)
