"""scratch exploratory toolkit (NOT the framework)"""
import inspect, itertools, warnings
from inspect import Parameter as P, Signature as S
from sigtools import signatures as sg, _signatures as _sg, support
PO, POK, VP, KWO, VK = P.POSITIONAL_ONLY, P.POSITIONAL_OR_KEYWORD, P.VAR_POSITIONAL, P.KEYWORD_ONLY, P.VAR_KEYWORD

def mk(spec):
    """spec: list of (name, kind, has_default)"""
    ps=[]
    for name, kind, d in spec:
        ps.append(_sg.UpgradedParameter(name, kind, default=(1 if d else P.empty)))
    return ps

def sig_from_str(s_, name='f'):
    return support.s(s_, name=name)

def universe(names, max_named=2, star_names=('args',), kw_names=('kwargs',), defaults=True):
    """yield signature strings"""
    out=[]
    for n in range(max_named+1):
        for nm in itertools.permutations(names, n):
            # split into po | pok | kwo
            for i in range(n+1):
                for j in range(i, n+1):
                    po, pok, kwo = nm[:i], nm[i:j], nm[j:]
                    for va in (None,)+tuple(star_names):
                        for vk in (None,)+tuple(kw_names):
                            dopts = itertools.product([False,True] if defaults else [False], repeat=n)
                            for ds in dopts:
                                pos_d = ds[:j]
                                # validity: once default, all later positional default
                                ok=True; seen=False
                                for d in pos_d:
                                    if d: seen=True
                                    elif seen: ok=False
                                if not ok: continue
                                parts=[]
                                for k,(x,d) in enumerate(zip(nm,ds)):
                                    t = x + ('=1' if d else '')
                                    if k < i: parts.append(('po',t))
                                    elif k < j: parts.append(('pok',t))
                                    else: parts.append(('kwo',t))
                                s=[]
                                s += [t for kd,t in parts if kd=='po']
                                if po: s.append('/')
                                s += [t for kd,t in parts if kd=='pok']
                                if va: s.append('*'+va)
                                elif kwo: s.append('*')
                                s += [t for kd,t in parts if kd=='kwo']
                                if vk: s.append('**'+vk)
                                out.append(', '.join(s))
    return sorted(set(out))

def accepts(sig, npos, kws):
    try:
        sig.bind(*([0]*npos), **{k:0 for k in kws})
        return True
    except TypeError:
        return False

def shapes(names, maxpos):
    for npos in range(maxpos+1):
        for r in range(len(names)+1):
            for ks in itertools.combinations(names, r):
                yield npos, ks

def pnames(sig): return list(sig.parameters)
def kwpassable(sig): return {p.name for p in sig.parameters.values() if p.kind in (POK,KWO)}
def noncolliding(res, inputs, kws):
    allnames=set()
    for s_ in inputs: allnames |= set(s_.parameters)
    kp = kwpassable(res)
    return all((k in kp) or (k not in allnames) for k in kws)

def cp_accepts(sig, npos, kws):
    """model of CPython argument binding on call shapes"""
    params=list(sig.parameters.values())
    positional=[p for p in params if p.kind in (PO,POK)]
    va=any(p.kind==VP for p in params); vk=any(p.kind==VK for p in params)
    if npos>len(positional) and not va: return False
    bound={p.name for p in positional[:npos]}
    byname={p.name:p for p in params if p.kind in (POK,KWO)}
    for k in kws:
        if k in byname:
            if k in bound: return False
            bound.add(k)
        elif not vk: return False
    for p in params:
        if p.kind in (VP,VK): continue
        if p.default is P.empty and p.name not in bound: return False
    return True

def real_accepts(func, npos, kws):
    try:
        func(*([0]*npos), **{k:0 for k in kws}); return True
    except TypeError:
        return False
