import u, itertools, collections, sys, multiprocessing as mp
from sigtools import signatures as sg
U=u.universe(['a','b','c'],2, star_names=('args','p'), kw_names=('kwargs','k'))
sigs={s_:u.sig_from_str(s_) for s_ in U}
names=['a','b','c','zz']
SH=list(u.shapes(names,3))
_acc={}
def acc(sig):
    k=str(sig)
    if k not in _acc:
        _acc[k]=frozenset(i for i,(n,kw) in enumerate(SH) if u.cp_accepts(sig,n,kw))
    return _acc[k]
def roles(sig):
    r={}
    for i,p in enumerate(sig.parameters.values()):
        r[p.name]=(p.kind,i if p.kind in (u.PO,u.POK) else None)
    return r
def consistent(ss):
    seen={}
    for s_ in ss:
        for n,r in roles(s_).items():
            if n in seen and seen[n]!=r: return False
            seen[n]=r
    return True
def work(A):
    out=[];stats=collections.Counter()
    a=sigs[A]
    for B in U:
        b=sigs[B]
        try: m=sg.merge(a,b)
        except sg.IncompatibleSignatures: stats['incompat']+=1; continue
        except ValueError as e: stats['valueerror']+=1; stats['VE:'+str(e)[:25]]+=1; 
        else:
            cons=consistent([a,b])
            stats['cons' if cons else 'incons']+=1
            bad=acc(m)-(acc(a)&acc(b))
            for i in bad:
                npos,kws=SH[i]
                if not kws or npos==0: out.append(('V1',A,B,str(m),npos,kws))
                elif cons and u.noncolliding(m,[a,b],kws): out.append(('V2',A,B,str(m),npos,kws))
                elif u.noncolliding(m,[a,b],kws): stats['incons-noncoll-unsound']+=1
                else: stats['colliding-unsound']+=1
            continue
        if consistent([a,b]): stats['VE-consistent']+=1; out.append(('VE',A,B,str(e)))
    return out,stats
if __name__=='__main__':
    with mp.Pool(16) as p:
        res=p.map(work,U,chunksize=8)
    tot=collections.Counter(); outs=[]
    for o,s_ in res: tot.update(s_); outs+=o
    print(tot)
    print(len(outs))
    seen=set()
    for o in outs:
        k=(o[0],o[1],o[2])
        if k in seen: continue
        seen.add(k)
        if len(seen)<60: print(o)
