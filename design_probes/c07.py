import sys, importlib, inspect, types, functools, collections, multiprocessing as mp, traceback, warnings, os, time, pkgutil
DENY={'antigravity','this','idlelib','tkinter','turtle','turtledemo','__main__','test','lib2to3','pydoc_data','_pyrepl','msilib','winreg','winsound','msvcrt','nt','_winapi','_overlapped','asyncio.windows_events','asyncio.windows_utils','ensurepip','venv','distutils'}
def modules():
    names=sorted(n for n in sys.stdlib_module_names if n not in DENY and not n.startswith('_'))
    return names
def callables_of(mod):
    seen=set(); out=[]
    for name,obj in list(vars(mod).items()):
        if name.startswith('__'): continue
        try:
            if getattr(obj,'__module__',None)!=mod.__name__: continue
        except Exception: continue
        if isinstance(obj,(types.FunctionType,functools.partial)) or (callable(obj) and not isinstance(obj,type)):
            out.append((name,obj))
        elif isinstance(obj,type):
            out.append((name,obj))
            for an,av in list(vars(obj).items()):
                if an.startswith('__') and an not in ('__init__','__call__'): continue
                try: bound=getattr(obj,an)
                except Exception: continue
                if callable(bound): out.append((name+'.'+an,bound))
    return out
def work(modname):
    import sigtools
    from sigtools import signatures as sg, _signatures
    res=collections.Counter(); bad=[]
    t0=time.time()
    try:
        with warnings.catch_warnings():
            warnings.simplefilter('ignore')
            mod=importlib.import_module(modname)
    except BaseException as e:
        return modname,{'import-fail':1},[],0
    for name,obj in callables_of(mod):
        res['objects']+=1
        try: isig=inspect.signature(obj); iexc=None
        except BaseException as e: isig=None; iexc=type(e)
        for tag,fn in (('auto',lambda o: sigtools.signature(o)),('noauto',lambda o: sigtools.signature(o,auto=False)),('plain',lambda o: sg.signature(o))):
            try:
                with warnings.catch_warnings():
                    warnings.simplefilter('ignore')
                    s=fn(obj); sexc=None
            except BaseException as e:
                s=None; sexc=type(e); tb=traceback.extract_tb(e.__traceback__)
                inner=[f for f in tb if '/sigtools/' in f.filename]
                where=(os.path.basename(inner[-1].filename),inner[-1].name,inner[-1].lineno) if inner else None
            if iexc is None:
                if sexc is not None: bad.append(('RAISES',tag,modname+'.'+name,sexc.__name__,where)); res['bad']+=1
                elif not isinstance(s,_signatures.UpgradedSignature): bad.append(('TYPE',tag,modname+'.'+name))
                else:
                    res['ok']+=1
                    if tag=='auto':
                        if str(s)!=str(isig): res['auto-differs']+=1
                        missing=[p for p in s.parameters if p not in s.sources]
                        if missing: bad.append(('SRCKEY',tag,modname+'.'+name,missing)); 
            else:
                if sexc is not iexc: bad.append(('EXCTYPE',tag,modname+'.'+name,iexc.__name__,sexc.__name__ if sexc else None))
                else: res['same-exc']+=1
    return modname,dict(res),bad,time.time()-t0
if __name__=='__main__':
    mods=modules(); print(len(mods))
    t0=time.time()
    with mp.Pool(16,maxtasksperchild=4) as p:
        results=[]
        for r in p.imap_unordered(work,mods): results.append(r)
    tot=collections.Counter(); bads=[]
    for m,r,b,t in results: tot.update(r); bads+=b
    print('wall',time.time()-t0, tot)
    print(collections.Counter((b[0],b[1]) for b in bads))
    buckets=collections.Counter((b[0],)+tuple(b[3:]) for b in bads if b[0]=='RAISES')
    for k,v in buckets.most_common(20): print(v,k)
    for b in [b for b in bads if b[0]=='RAISES'][:12]: print(b)
    for b in [b for b in bads if b[0]=='EXCTYPE'][:8]: print(b)
    print(len([b for b in bads if b[0]=='SRCKEY']), [b for b in bads if b[0]=='SRCKEY'][:5])
    slow=sorted(results,key=lambda r:-r[3])[:5]; print([(m,round(t,1)) for m,r,b,t in slow])
