import u, itertools, collections, functools, multiprocessing as mp
import sigtools
from sigtools import signatures as sg, support
U=u.universe(['a','b','c'],3, star_names=('args',), kw_names=('kwargs',))
NAMES=['a','b','c','zz','yy']
SH=[(n,frozenset(k)) for n,k in u.shapes(NAMES,4)]
def work(A):
    out=[];st=collections.Counter()
    f=support.f(A)
    fsig=sg.signature(f)
    L=len([p for p in fsig.parameters.values() if p.kind in (u.PO,u.POK)])
    kwc=[p.name for p in fsig.parameters.values() if p.kind in (u.POK,u.KWO)]+['zz']
    for n in range(L+2):
        for r in range(3):
            for names in itertools.combinations(kwc,r):
                try: p=functools.partial(f,*([7]*n),**{k:8 for k in names})
                except TypeError: continue
                st['partials']+=1
                for which,getter in (('plain',sg.signature),('auto',sigtools.signature)):
                    try: ps=getter(p)
                    except ValueError as e:
                        # is partial callable at all?
                        anyok=any(u.real_accepts(p,np_,K) for np_,K in SH)
                        try: inspect_ok=str(__import__('inspect').signature(p))
                        except Exception as e2: inspect_ok='ERR '+type(e2).__name__
                        out.append(('RAISE',which,A,n,names,repr(e)[:60],anyok,inspect_ok)); continue
                    except Exception as e:
                        out.append(('EXC',which,A,n,names,repr(e)[:80])); continue
                    kp=u.kwpassable(ps); alln=set(fsig.parameters)
                    for np_,K in SH:
                        if not all(k in kp or k not in alln for k in K): continue
                        ra=u.real_accepts(p,np_,K); sa=u.cp_accepts(ps,np_,K)
                        st['calls']+=1
                        if ra!=sa: out.append(('DIFF',which,A,n,names,str(ps),np_,sorted(K),'real' if ra else 'sig')); break
    return out,st
if __name__=='__main__':
    with mp.Pool(16) as p: res=p.map(work,U,chunksize=4)
    tot=collections.Counter(); outs=[]
    for o,s_ in res: tot.update(s_); outs+=o
    print(tot); print(collections.Counter((o[0],o[1]) for o in outs))
    seen=collections.Counter()
    for o in outs:
        seen[o[0]]+=1
        if seen[o[0]]<=15: print(o)
    bad=[o for o in outs if o[0]=='RAISE' and (o[6] or not o[7].startswith('ERR'))]
    print('raise-but-callable', len(bad)); print(bad[:10])
