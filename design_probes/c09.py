import u, itertools, collections, multiprocessing as mp
from sigtools import signatures as sg
from c01b import consistent, roles
U=u.universe(['a','b','c'],3, star_names=('args','p'), kw_names=('kwargs','k'))
sigs={s_:u.sig_from_str(s_) for s_ in U}
NAMES=['a','b','c','zz']
SH=[(n,frozenset(k)) for n,k in u.shapes(NAMES,4)]
_acc={}
def acc(sig):
    k=str(sig)
    if k not in _acc: _acc[k]=frozenset(i for i,(n,kw) in enumerate(SH) if u.cp_accepts(sig,n,kw))
    return _acc[k]
def aligned(a,b):
    pa=[p for p in a.parameters.values() if p.kind in (u.PO,u.POK)]; pb=[p for p in b.parameters.values() if p.kind in (u.PO,u.POK)]
    return all(x.name==y.name for x,y in zip(pa,pb)) and consistent([a,b])
def work(A):
    out=[];st=collections.Counter(); a=sigs[A]
    # unary laws
    if sg.merge(a)!=a: out.append(('UNARY',A))
    m=sg.merge(a,a)
    if m!=a: out.append(('IDEM',A,str(m)))
    r=sg.apply_params(a,*sg.sort_params(a))
    if r!=a or r.sources!=a.sources: out.append(('ROUNDTRIP',A,str(r)))
    bare=u.sig_from_str('*args, **kwargs')
    for l,rr,tag in ((a,bare,'NEUT-R'),(bare,a,'NEUT-L')):
        m=sg.merge(l,rr)
        norm=lambda s:[(p.name if p.kind not in (u.VP,u.VK) else p.kind.name,p.kind,p.default) for p in s.parameters.values()]
        if norm(m)!=norm(a): out.append((tag,A,str(m)))
    for B in U:
        b=sigs[B]
        if not aligned(a,b): continue
        st['aligned']+=1
        both=acc(a)&acc(b)
        try: m=sg.merge(a,b)
        except sg.IncompatibleSignatures:
            st['raise']+=1
            if both: out.append(('RAISE-BUT-COMMON',A,B,SH[min(both)]))
            continue
        if not both: out.append(('NORAISE-NOCOMMON',A,B,str(m)))
        kp=u.kwpassable(m); alln=set(a.parameters)|set(b.parameters)
        nc=lambda K: all(k in kp or k not in alln for k in K)
        got={i for i in acc(m) if nc(SH[i][1])}; exp={i for i in both if nc(SH[i][1])}
        if got-exp: out.append(('UNSOUND',A,B,str(m),SH[min(got-exp)]))
        if exp-got: out.append(('INEXACT',A,B,str(m),SH[min(exp-got)]))
    return out,st
if __name__=='__main__':
    UU=U[::3]
    with mp.Pool(16) as p: res=p.map(work,UU,chunksize=4)
    tot=collections.Counter(); outs=[]
    for o,s_ in res: tot.update(s_); outs+=o
    print(len(U),tot); print(collections.Counter(o[0] for o in outs))
    seen=collections.Counter()
    for o in outs:
        seen[o[0]]+=1
        if seen[o[0]]<=8: print(o)
