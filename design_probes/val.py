import u
from sigtools import support
U=u.universe(['a','b','c'],3, star_names=('args',), kw_names=('kwargs',))
print(len(U))
SH=list(u.shapes(['a','b','c','zz'],4))
bad=0; badbind=0
for s_ in U:
    f=support.f(s_); sig=support.s(s_)
    for npos,kws in SH:
        r=u.real_accepts(f,npos,kws); m=u.cp_accepts(sig,npos,kws)
        if r!=m: bad+=1; print('MODEL',s_,npos,kws,r,m)
        if r!=u.accepts(sig,npos,kws): badbind+=1
print('model disagreements',bad,'bind disagreements',badbind, 'of', len(U)*len(SH))
