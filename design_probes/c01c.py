import u, itertools, collections, sys, multiprocessing as mp, random
from sigtools import signatures as sg
from c01b import acc, consistent, SH
U=u.universe(['a','b','c'],2, star_names=('args',), kw_names=('kwargs',))
sigs={s_:u.sig_from_str(s_) for s_ in U}
def work(seed):
    rnd=random.Random(seed); out=[]; stats=collections.Counter()
    for _ in range(60000):
        A,B,C=rnd.choice(U),rnd.choice(U),rnd.choice(U)
        a,b,c=sigs[A],sigs[B],sigs[C]
        try: m=sg.merge(a,b,c)
        except sg.IncompatibleSignatures: m=None
        except ValueError: m='VE'
        try: m2=sg.merge(sg.merge(a,b),c)
        except sg.IncompatibleSignatures: m2=None
        except ValueError: m2='VE'
        cons=consistent([a,b,c])
        if cons:
            stats['cons']+=1
            if str(m)!=str(m2): stats['nary!=nested(cons)']+=1; out.append(('NEST',A,B,C,str(m),str(m2)))
        elif str(m)!=str(m2): stats['nary!=nested(incons)']+=1
        if m is None or isinstance(m,str): stats['raised']+=1; continue
        bad=acc(m)-(acc(a)&acc(b)&acc(c))
        for i in bad:
            npos,kws=SH[i]
            if not kws or npos==0: out.append(('V1',A,B,C,str(m),npos,kws,str(m2)))
            elif cons and u.noncolliding(m,[a,b,c],kws): out.append(('V2',A,B,C,str(m),npos,kws,str(m2)))
    return out,stats
if __name__=='__main__':
    print(len(U))
    with mp.Pool(16) as p:
        res=p.map(work,range(32))
    tot=collections.Counter(); outs=[]
    for o,s_ in res: tot.update(s_); outs+=o
    print(tot); print(len(outs))
    seen=set()
    for o in outs:
        k=o[:4]
        if k in seen: continue
        seen.add(k)
        if len(seen)<40: print(o)
    print(collections.Counter(o[0] for o in outs))
