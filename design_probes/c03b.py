import u, itertools, collections, sys, multiprocessing as mp
from sigtools import signatures as sg
U=u.universe(['a','b','c'],3, star_names=('args',), kw_names=('kwargs',))
sigs={s_:u.sig_from_str(s_) for s_ in U}
NAMES=['a','b','c','zz','yy']
SH=[(n,frozenset(k)) for n,k in u.shapes(NAMES,4)]
def M(sig,n,names,**fl):
    try: return sg.mask(sig,n,*names,**fl)
    except ValueError: return None
def work(A):
    out=[];st=collections.Counter()
    sig=sigs[A]
    if sg.mask(sig,0)!=sig or sg.mask(sig,0).sources!=sig.sources: out.append(('ID',A))
    cand=[p.name for p in sig.parameters.values() if p.kind in (u.POK,u.KWO)]+['zz']
    L=len(sig.parameters)
    for n in range(L+3):
        for m in range(L+3-n):
            x=M(sig,n,()); y=M(x,m,()) if x is not None else None; z=M(sig,n+m,())
            st['comp']+=1
            if (y is None)!=(z is None) or (y is not None and (y!=z or y.sources!=z.sources)): out.append(('COMP',A,n,m,str(y),str(z)))
    for n in range(L+2):
      for r in range(min(len(cand),2)+1):
        for names in itertools.combinations(cand,r):
            base=M(sig,n,names)
            for fl in itertools.product([False,True],repeat=4):
                if not any(fl): continue
                ha,hk,hva,hvk=fl
                res=M(sig,n,names,hide_args=ha,hide_kwargs=hk,hide_varargs=hva,hide_varkwargs=hvk)
                st['flag']+=1
                if res is None: st['flag-raise']+=1; continue
                ps=list(res.parameters.values())
                for p in ps:
                    if p.name not in sig.parameters: out.append(('NEWPARAM',A,n,names,fl,str(res)))
                if (ha or hva) and any(p.kind==u.VP for p in ps): out.append(('VP-LEFT',A,n,names,fl,str(res)))
                if ha and any(p.kind in (u.PO,u.POK) for p in ps): out.append(('POS-LEFT',A,n,names,fl,str(res)))
                if (hk or hvk) and any(p.kind==u.VK for p in ps): out.append(('VK-LEFT',A,n,names,fl,str(res)))
                if hk and any(p.kind in (u.KWO,u.POK) for p in ps): out.append(('KW-LEFT',A,n,names,fl,str(res)))
                if not ha and not hk:
                    if base is None: out.append(('BASE-RAISE',A,n,names,fl,str(res)))
                    else:
                        exp=[p for p in base.parameters.values() if not (hva and p.kind==u.VP) and not (hvk and p.kind==u.VK)]
                        if [str(p) for p in exp]!=[str(p) for p in ps]: out.append(('STAR-ONLY',A,n,names,fl,str(res),str(base)))
                # existential soundness
                kp=u.kwpassable(res); alln=set(sig.parameters)
                sigkw=[p.name for p in sig.parameters.values() if p.kind in (u.POK,u.KWO)]+['qq']
                for np_,K in SH:
                    if K & set(names): continue
                    if not all(k in kp or k not in alln for k in K): continue
                    if not u.cp_accepts(res,np_,K): continue
                    st['acc']+=1
                    ok=False
                    for mm in (range(0,L+2) if ha else [n]):
                        extra=[k for k in sigkw if k not in K] if hk else []
                        for rr in range(len(extra)+1):
                            for K2 in itertools.combinations(extra,rr):
                                for nm in ([()] if hk else [names]):
                                    if u.cp_accepts(sig,np_+mm,set(K)|set(K2)|set(nm)): ok=True;break
                                if ok:break
                            if ok:break
                        if ok:break
                    if not ok: out.append(('EXIST',A,n,names,fl,str(res),np_,sorted(K)))
    return out,st
if __name__=='__main__':
    with mp.Pool(16) as p: res=p.map(work,U,chunksize=4)
    tot=collections.Counter(); outs=[]
    for o,s_ in res: tot.update(s_); outs+=o
    print(tot); print(collections.Counter(o[0] for o in outs))
    seen=collections.Counter()
    for o in outs:
        seen[o[0]]+=1
        if seen[o[0]]<=8: print(o)
