import u, itertools, collections, sys, multiprocessing as mp
from sigtools import signatures as sg
OUT=u.universe(['a','b'],2, star_names=('args',), kw_names=('kwargs',))
INN=u.universe(['a','x','y'],2, star_names=('args','p'), kw_names=('kwargs','k'))
osigs={s_:u.sig_from_str(s_) for s_ in OUT}; isigs={s_:u.sig_from_str(s_) for s_ in INN}
NAMES=['a','b','x','y','zz']
SH=[(n,frozenset(k)) for n,k in u.shapes(NAMES,5)]
def split(outer,np_,K):
    """returns (surplus positionals, surplus kws) assuming outer accepts"""
    ps=list(outer.parameters.values())
    npos=len([p for p in ps if p.kind in (u.PO,u.POK)])
    kwn={p.name for p in ps if p.kind in (u.POK,u.KWO)}
    return max(0,np_-npos), frozenset(k for k in K if k not in kwn)
def ref_accepts(outer,inner,uva,uvk,np_,K):
    if not u.cp_accepts(outer,np_,K): return False
    S,K2=split(outer,np_,K)
    return u.cp_accepts(inner, S if uva else 0, K2 if uvk else ())
def work(A):
    out=[];st=collections.Counter()
    o=osigs[A]
    o_defpos=any(p.kind in (u.PO,u.POK) and p.default is not p.empty for p in o.parameters.values())
    for B in INN:
        i=isigs[B]
        for uva,uvk in itertools.product([True,False],repeat=2):
            st['cases']+=1
            shared=set(o.parameters)&set(i.parameters)
            feasible=any(ref_accepts(o,i,uva,uvk,n,K) for n,K in SH)
            try: r=sg.embed(o,i,use_varargs=uva,use_varkwargs=uvk)
            except sg.IncompatibleSignatures:
                st['raise']+=1
                if not shared and feasible: out.append(('RAISE',A,B,uva,uvk))
                continue
            except Exception as e:
                out.append(('EXC',A,B,uva,uvk,repr(e))); continue
            if not feasible and not shared: st['noraise-infeasible']+=1
            kp=u.kwpassable(r); alln=set(o.parameters)|set(i.parameters)
            inner_pos_in_res=any(p.kind in (u.PO,u.POK) and p.name not in o.parameters for p in r.parameters.values())
            exempt=o_defpos and inner_pos_in_res
            for n,K in SH:
                if not all(k in kp or k not in alln for k in K): continue
                ra=u.cp_accepts(r,n,K); fa=ref_accepts(o,i,uva,uvk,n,K)
                if ra and not fa: out.append(('UNSOUND',A,B,uva,uvk,str(r),n,sorted(K)))
                if fa and not ra:
                    if exempt: st['inexact-exempt']+=1
                    else: out.append(('INEXACT',A,B,uva,uvk,str(r),n,sorted(K)))
            if A=='*args, **kwargs' and uva and uvk:
                if [str(p) for p in r.parameters.values()]!=[str(p) for p in i.parameters.values()]: out.append(('BARE',B,str(r)))
    return out,st
if __name__=='__main__':
    print(len(OUT),len(INN))
    with mp.Pool(16) as p: res=p.map(work,OUT,chunksize=2)
    tot=collections.Counter(); outs=[]
    for o,s_ in res: tot.update(s_); outs+=o
    print(tot); print(collections.Counter(o[0] for o in outs))
    seen=collections.Counter(); sk=set()
    for o in outs:
        k=(o[0],)+tuple(o[1:5])
        if k in sk: continue
        sk.add(k)
        seen[o[0]]+=1
        if seen[o[0]]<=25: print(o)
    print({k:len([1 for x in sk if x[0]==k]) for k in seen})
