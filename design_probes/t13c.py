import sigtools, inspect, traceback
from sigtools import wrappers
@wrappers.decorator
def deco(func, *args, dp=False, **kwargs):
    return ('deco', dp, func(*args, **kwargs))
@deco
def m2(self, x): return ('m2', x)
@deco
def m3(a, x): return ('m3', x)
for f in (m3, m2):
    try: print(f.__name__, sigtools.signature(f))
    except Exception as e: print(f.__name__, 'RAISES', type(e).__name__, e)
