"""Deterministic cooperative thread scheduler (C17).

Each logical thread runs in a real threading.Thread, but exactly one runs at a time: a per-thread
sys.settrace function treats every `line` event in a sigtools frame as a preemption point at which
the scheduler -- following an explicit plan, not the OS -- may hand the baton to another thread.
A plan is plain data {(thread, point index): next thread}; it replays exactly.

Granularity: line boundaries inside sigtools code.  Races that need a switch inside one line or
while no sigtools frame is executing are outside what this explores."""
import os
import sys
import threading


class Deadlock(Exception):
    pass


def _sigdir():
    import sigtools
    d = os.path.dirname(os.path.abspath(sigtools.__file__)) + os.sep
    return d, os.path.join(d, 'tests') + os.sep


class Sched(object):
    def __init__(self, fns, plan, probe=None, timeout=20.0):
        self.fns = fns
        self.plan = dict(plan)
        self.n = len(fns)
        self.cv = threading.Condition()
        self.current = 0
        self.done = [False] * self.n
        self.points = [0] * self.n
        self.results = [None] * self.n
        self.switches = []          # (from, point, function, line, to)
        self.preempted = []         # stack of preempted threads
        self.probe = probe          # probe(tid, point) -> bool: is this point inside a shared-state window?
        self.window_points = [[] for _ in range(self.n)]
        self.ran_between = [0] * self.n   # sigtools lines other threads ran while this one was preempted
        self.timeout = timeout
        self.dir, self.tests = _sigdir()
        self._inside = {}
        self.trace = [[] for _ in range(self.n)]      # (file, line) of every point, per thread

    def inside(self, code):
        r = self._inside.get(code)
        if r is None:
            fn = code.co_filename
            r = self._inside[code] = fn.startswith(self.dir) and not fn.startswith(self.tests)
        return r

    def _tracer(self, tid):
        def local(frame, event, arg):
            if event == 'line':
                self.points[tid] += 1
                p = self.points[tid]
                self.trace[tid].append((frame.f_code.co_filename, frame.f_lineno))
                if self.probe is not None and self.probe(tid, p):
                    self.window_points[tid].append(p)
                nxt = self.plan.get((tid, p))
                if nxt is not None and nxt != tid and not self.done[nxt]:
                    self.switches.append((tid, p, frame.f_code.co_name, frame.f_lineno, nxt))
                    self._switch(tid, nxt)
            return local

        def glob(frame, event, arg):
            if self.inside(frame.f_code):
                return local
            return None
        return glob

    def _switch(self, me, nxt):
        with self.cv:
            self.preempted.append(me)
            before = sum(self.points) - self.points[me]
            self.current = nxt
            self.cv.notify_all()
            while self.current != me:
                if not self.cv.wait(self.timeout):
                    raise Deadlock('thread %d never got the baton back' % me)
            self.ran_between[me] += (sum(self.points) - self.points[me]) - before

    def _run(self, tid):
        with self.cv:
            while self.current != tid:
                if not self.cv.wait(self.timeout):
                    self.results[tid] = ('deadlock', 'never scheduled')
                    return
        sys.settrace(self._tracer(tid))
        try:
            try:
                self.results[tid] = ('ok', self.fns[tid]())
            except Deadlock as e:
                self.results[tid] = ('deadlock', str(e))
            except BaseException as e:
                self.results[tid] = ('exc', type(e).__name__)
        finally:
            sys.settrace(None)
            with self.cv:
                self.done[tid] = True
                nxt = None
                while self.preempted:
                    c = self.preempted.pop()
                    if not self.done[c]:
                        nxt = c
                        break
                if nxt is None:
                    for j in range(self.n):
                        if not self.done[j]:
                            nxt = j
                            break
                if nxt is not None:
                    self.current = nxt
                self.cv.notify_all()

    def run(self):
        ts = [threading.Thread(target=self._run, args=(i,), daemon=True) for i in range(self.n)]
        for t in ts:
            t.start()
        for t in ts:
            t.join(self.timeout * 2)
        if any(t.is_alive() for t in ts) or any(r is not None and r[0] == 'deadlock' for r in self.results):
            raise Deadlock('schedule did not terminate: %r' % (self.results,))
        return self.results
