"""The forwarding-program grammar shared by C05 / C06 (and parts of C04, C08, C13).

A *program* is plain JSON-able data (so that it replays without Hypothesis):

  outer   : spec of the wrapper's own parameters (>=1 star parameter)
  leaves  : specs of the leaf callees L0, L1 (bodies only record the call)
  lkinds  : per leaf: 'func' | 'class' | 'instance' | 'wrapper' (a function that itself forwards
            everything to a hidden leaf through (*args, **kwargs) -- a chain)
  calls   : list of forwarding calls (see st_call): which leaf, n positional constant
            arguments, keyword names (written order), how each star-argument is written:
               'own'      *args           (the wrapper's own star parameter)
               'none'     absent
               'foreign'  *HA / **HK      (module globals the harness controls)
               'own+f'    *args, *HA      (combined with another star-argument)
               'own+own'  *args, *args
               'own+pos'  *args, 2000     (a positional argument written after the star-argument: it lands behind
                                           whatever the caller passed)
            and the statement context the call expression is placed in
  multi   : 'branch' (if SEL == i: ...) | 'seq' (one after another)
  route   : how the callee expression is resolved (global, closure, attr, self_method,
            self_attr, param, partial_inner, shadow_*, local_rebind, missing, noncallable)
  taints  : statements that rebind / mutate / delete / hand over / capture a star parameter,
            placed 'before' or 'after' the forwarding statement(s)
  deco    : decoration of the wrapper (none, passthrough, wraps, wrapping, kwoargs, autokwoargs)
  decoys  : unrelated statements and decoy calls not mentioning the stars

`render(prog)` produces source text; `build(prog)` loads it (source registered with
linecache) and returns a Built object giving the target callable, the leaves, the ground
truth of every call (what forwards() arguments describe it -- written from
docs/forwards-howto.rst, not from the AST walker) and an `execute(shape, sel, ha, hk)` method.
"""
import functools
import itertools

from vlib import realfn, universe
from vlib.universe import Par, PO, POK, VP, KWO, VK

# a module the generated `from verif_hidden import ... as <star>` statements import from
import sys as _sys
import types as _types
_hidden = _types.ModuleType('verif_hidden')
_hidden.HAV = ()
_hidden.HKV = {}
_sys.modules['verif_hidden'] = _hidden

ONAMES = ('a', 'b', 'c')
LNAMES = ('x', 'y', 'z', 'a')
CTXS = ('return', 'assign', 'if', 'try', 'with', 'listcomp', 'dictcomp', 'genexp', 'nested', 'lambda',
        'decoyarg', 'ternary', 'nested2', 'lambda_default', 'walrus', 'fstring', 'starred_display',
        'nested_decoyarg', 'lambda_decoykw', 'lambda_subscript', 'comp_rebinds_args', 'comp_rebinds_kwargs', 'genexp_rebinds_args', 'genexp_rebinds_kwargs',
        'loop_rebinds_args', 'loop_rebinds_kwargs', 'comploop_mutates_kwargs', 'text_col0', 'continuation_col0',
        'nested_lambda', 'lambda_lambda',
        'nested_early', 'lambda_early', 'nested_listcomp', 'lambda_dictcomp', 'nested_listcomp_early', 'lambda_dictcomp_early',
        'nested_genexp_early', 'lambda_setcomp_early', 'genexp_lazy', 'genexp_lazy_early', 'async_nested', 'async_nested_early')
NESTED_CTXS = ('genexp', 'nested', 'lambda', 'nested2', 'nested_decoyarg', 'lambda_decoykw', 'lambda_subscript', 'nested_lambda', 'lambda_lambda',
               'nested_early', 'lambda_early', 'nested_listcomp', 'lambda_dictcomp', 'nested_listcomp_early', 'lambda_dictcomp_early',
               'nested_genexp_early', 'lambda_setcomp_early', 'genexp_lazy', 'genexp_lazy_early', 'async_nested', 'async_nested_early')
# calls that run later than where they are written (statements after them count): the nested contexts and the generator
# expressions that rebind a star (kept out of NESTED_CTXS: the equivalent rewrites of C06 rotate within that tuple)
DEFERRED_CTXS = NESTED_CTXS + ('genexp_rebinds_args', 'genexp_rebinds_kwargs')
# in the *_early contexts the nested function is defined at the top of the body (before the taint statements) and called where
# the forwarding statement stands: what it forwards is what the names denote when it runs
HOIST = '\x00'
ROUTES = ('global', 'closure', 'attr', 'self_method', 'self_attr', 'param', 'partial_inner',
          'shadow_posonly', 'shadow_lambda', 'shadow_nested', 'shadow_comp', 'local_rebind', 'missing', 'noncallable',
          'classmethod_cls', 'closure_like_global', 'param_shadow_lambda', 'param_shadow_kwonly', 'self_shadow_nested', 'param_default',
          'self_attr_store', 'self_attr_store_arg', 'via_helper', 'via_helper_kw')
# via_helper*: every call goes through one generic helper that receives the callee as an argument (positionally: APPLY(L0, ...);
# by keyword: APPLYK(..., fn=L0)); several calls of one function then reach the same helper with different callees
UNRESOLVABLE = ('shadow_posonly', 'shadow_lambda', 'shadow_nested', 'shadow_comp', 'local_rebind', 'missing', 'noncallable',
                'param_shadow_lambda', 'param_shadow_kwonly', 'self_shadow_nested', 'param_default', 'self_attr_store', 'self_attr_store_arg')
STAR_MODES = ('own', 'none', 'foreign', 'own+f')
TAINTS = {
    # name: (target, statement template, what reaches the callee afterwards)
    #   flow: 'hidden'  the star now holds only harness-controlled hidden values
    #         'both'    caller-supplied content and hidden values
    #         'dead'    the name is unusable (del)
    #         'same'    content unchanged (the statement is harmless at run time)
    'rebind_args': ('args', '{A} = HA', 'hidden'),
    'aug_args': ('args', '{A} += HA', 'both'),
    'del_args': ('args', 'del {A}', 'dead'),
    'nonlocal_args': ('args', 'def _reb():\n    nonlocal {A}\n    {A} = HA\n_reb()', 'hidden'),
    'for_args': ('args', 'for {A} in (HA,):\n    pass', 'hidden'),
    'rebind_kwargs': ('kwargs', '{K} = dict(HK)', 'hidden'),
    'update_kwargs': ('kwargs', '{K}.update(HK)', 'both'),
    'setitem_kwargs': ('kwargs', 'for _k in HK:\n    {K}[_k] = HK[_k]', 'both'),
    'pop_kwargs': ('kwargs', "{K}.pop('zz9', None)", 'same'),
    'del_kwargs': ('kwargs', 'del {K}', 'dead'),
    'handover_kwargs': ('kwargs', 'MUTATE({K})', 'both'),
    'nonlocal_kwargs': ('kwargs', 'def _rebk():\n    nonlocal {K}\n    {K} = dict(HK)\n_rebk()', 'hidden'),
    'alias_kwargs': ('kwargs', '_alias = {K}\n_alias.update(HK)', 'both'),
    # ... through a bound method taken from it
    'method_alias_kwargs': ('kwargs', '_upd = {K}.update\n_upd(HK)', 'both'),
    # mutation from inside a nested function (it may run at any time)
    'nested_update_kwargs': ('kwargs', 'def _mut():\n    {K}.update(HK)\n_mut()', 'both'),
    'nested_handover_kwargs': ('kwargs', 'def _mut2():\n    MUTATE({K})\n_mut2()', 'both'),
    # ... handed over as the value of a named argument
    'handover_named_kwargs': ('kwargs', 'MUTATE(d={K})', 'both'),
    'nested_handover_named_kwargs': ('kwargs', 'def _mut3():\n    MUTATE(d={K})\n_mut3()', 'both'),
    'lambda_handover_named_kwargs': ('kwargs', '(lambda: MUTATE(d={K}))()', 'both'),
    # bindings that are not assignment targets
    'import_kwargs': ('kwargs', 'from verif_hidden import HKV as {K}', 'hidden'),
    'import_args': ('args', 'from verif_hidden import HAV as {A}', 'hidden'),
    'match_capture_kwargs': ('kwargs', 'match dict(HK):\n    case {K}:\n        pass', 'hidden'),
    'match_star_args': ('args', 'match (0,) + tuple(HA):\n    case [_, *{A}]:\n        pass', 'hidden'),
    'match_rest_kwargs': ('kwargs', 'match dict(HK):\n    case {{**{K}}}:\n        pass', 'hidden'),
    'except_as_kwargs': ('kwargs', 'try:\n    raise KeyError()\nexcept KeyError as {K}:\n    pass', 'dead'),
    'def_kwargs': ('kwargs', 'def {K}():\n    pass', 'broken'),
    'class_args': ('args', 'class {A}(object):\n    pass', 'broken'),
}
# statements that mention a star parameter without affecting it: must not lose precision
HARMLESS = {
    'read_args': ('args', 'DECOY({A})'),
    'len_args': ('args', '_n = len({A})'),
    'index_args': ('args', '_first = {A}[:1]'),
    'iter_args': ('args', 'for _item in {A}:\n    pass'),
}


# --------------------------------------------------------------------------- strategies

def st_program(max_calls=3, routes=ROUTES, ctxs=CTXS, allow_taints=True, decos=None):
    from hypothesis import strategies as st
    decos = decos or ('none', 'none', 'none', 'passthrough', 'wraps', 'wrapping', 'kwoargs', 'autokwoargs')

    @st.composite
    def build(draw):
        # outer: named part from the universe, then stars (at least one)
        named = draw(universe.st_spec(ONAMES, max_named=3, p_star=0.0))
        stars = draw(st.sampled_from(['both', 'both', 'both', 'args', 'kwargs']))
        aname = draw(st.sampled_from(['args', 'p']))
        kname = draw(st.sampled_from(['kwargs', 'k']))
        outer = [p for p in named if p.kind in (PO, POK)]
        if stars in ('both', 'args'):
            outer.append(Par(aname, VP))
        outer += [p for p in named if p.kind == KWO]
        if stars in ('both', 'kwargs'):
            outer.append(Par(kname, VK))
        nleaves = draw(st.integers(1, 2))
        leaves = [draw(universe.st_spec(LNAMES, max_named=4, p_star=0.25)) for _ in range(nleaves)]
        lkinds = [draw(st.sampled_from(['func', 'func', 'func', 'func', 'class', 'instance', 'wrapper', 'partial', 'kwoargs', 'declared', 'midwrap', 'helperwrap', 'helperwrap_kw'])) for _ in range(nleaves)]
        route = draw(st.sampled_from(routes))
        ncalls = draw(st.integers(1, max_calls)) if draw(st.booleans()) else 1
        calls = []
        for i in range(ncalls):
            calls.append(draw(st_call(leaves, nleaves, has_va=stars != 'kwargs', has_vk=stars != 'args', ctxs=ctxs)))
        taints = []
        if allow_taints and draw(st.integers(0, 9)) < 4:
            for _ in range(draw(st.integers(1, 2))):
                name = draw(st.sampled_from(sorted(TAINTS) + sorted(HARMLESS)))
                taints.append({'name': name, 'where': draw(st.sampled_from(['before', 'before', 'after']))})
        deco = draw(st.sampled_from(decos))
        prog = {
            'outer': [list(p) for p in outer], 'leaves': [[list(p) for p in l] for l in leaves], 'lkinds': lkinds,
            'calls': calls, 'multi': draw(st.sampled_from(['branch', 'seq'])), 'route': route,
            'taints': taints, 'deco': deco, 'decoys': draw(st.integers(0, 2)),
            'argexpr': draw(st.sampled_from(['const', 'const', 'param'])),
            'mention': draw(st.sampled_from([None, None, None, 'callee', 'base'])),
        }
        return normalise(prog)
    return build()


def st_call(leaves, nleaves, has_va, has_vk, ctxs=CTXS):
    from hypothesis import strategies as st

    @st.composite
    def build(draw):
        to = draw(st.integers(0, nleaves - 1))
        spec = leaves[to]
        cap = sum(1 for p in spec if p.kind in (PO, POK))
        kwp = [p.name for p in spec if p.kind in (POK, KWO)]
        wellformed = draw(st.integers(0, 19)) < 17
        if wellformed:
            npos = draw(st.integers(0, cap)) if draw(st.booleans()) else 0
            pool = [n for n in kwp if n not in [p.name for p in spec if p.kind in (PO, POK)][:npos]]
            if any(p.kind == VK for p in spec):
                pool = pool + ['q']
            names = draw(st.permutations(pool))[:draw(st.integers(0, min(2, len(pool))))] if pool else []
        else:
            npos = draw(st.integers(0, cap + 2))
            names = draw(st.permutations(list(kwp) + ['q', 'zz']))[:draw(st.integers(0, 2))]
        own = ['own'] * 6 + ['none', 'foreign', 'own+f']
        sa = draw(st.sampled_from(own + ['own+pos'] if has_va else ['none', 'none', 'foreign']))
        sk = draw(st.sampled_from(own if has_vk else ['none', 'none', 'foreign']))
        inarg = draw(st.sampled_from([None] * 8 + ['pop', 'mutate']))
        unres = draw(st.integers(0, 11)) == 0
        return {'to': to, 'npos': npos, 'names': list(names), 'sa': sa, 'sk': sk,
                'ctx': draw(st.sampled_from(ctxs)), 'inarg': inarg, 'unres': unres}
    return build()


def normalise(prog):
    """Keep the program inside the unambiguous region of the grammar (by construction, not
    by rejection): nested-scope calls only with taints placed before; modifiers decorations
    only where admissible; the `param` route needs leading positional parameters."""
    prog = dict(prog)
    outer = [Par(*p) for p in prog['outer']]
    if any(c['ctx'] in DEFERRED_CTXS for c in prog['calls']):
        prog['taints'] = [dict(t, where='before') for t in prog['taints']]
    has_star = {'args': any(p.kind == VP for p in outer), 'kwargs': any(p.kind == VK for p in outer)}
    pok = [p.name for p in outer if p.kind == POK]
    if prog['deco'] == 'kwoargs' and not pok:
        prog['deco'] = 'none'
    if prog['deco'] == 'autokwoargs' and not any(p.kind == POK and p.default is not None for p in outer):
        prog['deco'] = 'none'
    if prog['route'] in ('self_method', 'self_attr', 'self_attr_store', 'self_attr_store_arg', 'param', 'classmethod_cls', 'param_shadow_lambda', 'param_shadow_kwonly', 'self_shadow_nested', 'param_default') and prog['deco'] in ('kwoargs', 'autokwoargs', 'wraps', 'wrapping'):
        prog['deco'] = 'none'
    if prog['route'] in ('self_method', 'self_shadow_nested'):
        # leaves become methods: only plain functions make sense there
        prog['lkinds'] = ['func' for _ in prog['lkinds']]
    if prog['route'] == 'classmethod_cls':
        prog['lkinds'] = ['func' for _ in prog['lkinds']]
    if prog['route'] == 'partial_inner':
        for c in prog['calls']:
            c['ctx'] = 'return' if c['ctx'] in ('fstring',) else c['ctx']
    # one pair of hidden globals serves every call: with several calls executed in one run
    # the per-call existential would be conflated, so hidden channels force branch mode
    if any(c['sa'] in ('foreign', 'own+f') or c['sk'] in ('foreign', 'own+f') for c in prog['calls']) or \
            any(t['name'] in TAINTS for t in prog['taints']):
        prog['multi'] = 'branch'
    # a call that forwards no star at all is ignored by the property; it is written so that it
    # succeeds on its own (exactly the required arguments), else every execution would fail
    for c in prog['calls']:
        if c['sa'] == 'none' and c['sk'] == 'none':
            spec = [Par(*p) for p in prog['leaves'][c['to']]]
            c['npos'] = sum(1 for p in spec if p.kind in (PO, POK) and p.default is None)
            c['names'] = [p.name for p in spec if p.kind == KWO and p.default is None]
    for c in prog['calls']:
        if c['ctx'] in ('comp_rebinds_args', 'genexp_rebinds_args') and not (has_star['args'] and c['sa'] == 'own'):
            c['ctx'] = 'listcomp'
        if c['ctx'] in ('comp_rebinds_kwargs', 'genexp_rebinds_kwargs') and not (has_star['kwargs'] and c['sk'] == 'own'):
            c['ctx'] = 'listcomp'
        if c['ctx'] == 'loop_rebinds_args' and not (has_star['args'] and c['sa'] == 'own'):
            c['ctx'] = 'if'
        if c['ctx'] in ('loop_rebinds_kwargs', 'comploop_mutates_kwargs') and not (has_star['kwargs'] and c['sk'] == 'own'):
            c['ctx'] = 'if'
    loops = [c for c in prog['calls'] if c['ctx'] in ('loop_rebinds_args', 'loop_rebinds_kwargs', 'comploop_mutates_kwargs')]
    if loops:
        # the rebinding outlives the loop -- for the reader of the source on every path, at run time only where the loop ran:
        # such a program has this one forwarding call
        prog['calls'] = loops[:1]
    nested_any = any(c['ctx'] in DEFERRED_CTXS for c in prog['calls'])
    for c in prog['calls']:
        c.setdefault('inarg', None)
        c.setdefault('unres', False)
        if c['inarg'] and (nested_any or 'own' not in c['sk'] or not (c['npos'] or c['names'])
                           or prog['route'] == 'partial_inner'
                           # (inside a comprehension that rebinds the name the expression would touch the comprehension's own variable)
                           or c['ctx'] in ('comp_rebinds_kwargs', 'genexp_rebinds_kwargs', 'loop_rebinds_kwargs', 'comploop_mutates_kwargs')):
            c['inarg'] = None
        if c['unres'] and prog['route'] in UNRESOLVABLE + ('partial_inner',):
            c['unres'] = False
    prog.setdefault('mention', None)
    if prog['mention'] and prog['route'] in ('missing', 'local_rebind'):
        prog['mention'] = None
    if any(c['inarg'] == 'mutate' for c in prog['calls']):
        prog['multi'] = 'branch'
    # a star whose taint already brings the hidden values in is not combined with them again
    # (**k, **HK with k == HK can never bind; *p, *HA with p == HA only gives even counts)
    for j, c in enumerate(prog['calls']):
        ts = taint_state(prog, j)
        if ts['args'][1] in ('hidden', 'both') and c['sa'] == 'own+f':
            c['sa'] = 'own'
        if ts['kwargs'][1] in ('hidden', 'both') and c['sk'] == 'own+f':
            c['sk'] = 'own'
    # taints naming a star the wrapper does not have are dropped
    has = {'args': any(p.kind == VP for p in outer), 'kwargs': any(p.kind == VK for p in outer)}
    prog['taints'] = [t for t in prog['taints'] if has[(TAINTS.get(t['name']) or HARMLESS[t['name']])[0]]]
    # statements that would raise a TypeError of their own on a star rebound to a class / function (len(), slicing, iteration,
    # +=, item assignment) are not combined with that rebinding: the only TypeErrors of a program are binding errors
    tn = set(t['name'] for t in prog['taints'])
    if 'class_args' in tn:
        prog['taints'] = [t for t in prog['taints'] if t['name'] not in ('len_args', 'index_args', 'iter_args', 'aug_args')]
    if 'def_kwargs' in tn:
        prog['taints'] = [t for t in prog['taints'] if t['name'] not in ('setitem_kwargs',)]
    if prog.get('argexpr') == 'param' and not [p for p in outer if p.kind in (PO, POK, KWO)]:
        prog['argexpr'] = 'const'
    # an unresolvable callee only matters in a call that forwards a star (others are ignored,
    # and would merely fail on their own at run time)
    for c, t in zip(prog['calls'], ground_truth(prog)):
        if t['ignored']:
            c['unres'] = False
    return prog


# --------------------------------------------------------------------------- rendering

COL0 = '\x01'      # marks a physical line that stays in column 0 whatever block it is written in


def _indent(text, n=4):
    return ''.join(l if l.startswith(COL0) else ' ' * n + l if l.strip() else l for l in text.splitlines(True))


def _leaf_src(i, spec, kind, as_method=False, deco=''):
    """Source of leaf i (always defines a callable named L<i>)."""
    name = 'L%d' % i
    params = universe.spec_text(spec)
    rec = "{%s}" % ', '.join(["'__fn__': %r" % name] + ['%r: %s' % (p.name, p.name) for p in spec])
    if as_method:
        sp = universe.spec_text((Par('self', PO if any(p.kind == PO for p in spec) else POK),) + tuple(spec))
        return '%sdef %s(%s):\n    LOG.append(%s)\n    return %r\n' % (deco, name, sp, rec, name)
    if kind == 'func':
        return 'def %s(%s):\n    LOG.append(%s)\n    return %r\n' % (name, params, rec, name)
    if kind == 'class':
        sp = universe.spec_text((Par('self', PO if any(p.kind == PO for p in spec) else POK),) + tuple(spec))
        return 'class %s(object):\n    def __init__(%s):\n        LOG.append(%s)\n' % (name, sp, rec)
    if kind == 'instance':
        sp = universe.spec_text((Par('self', PO if any(p.kind == PO for p in spec) else POK),) + tuple(spec))
        return ('class _C%s(object):\n    def __call__(%s):\n        LOG.append(%s)\n        return %r\n%s = _C%s()\n'
                % (name, sp, rec, name, name, name))
    if kind == 'wrapper':
        return ('def _H%s(%s):\n    LOG.append(%s)\n    return %r\ndef %s(*args, **kwargs):\n    return _H%s(*args, **kwargs)\n'
                % (name, params, rec, name, name, name))
    if kind in ('helperwrap', 'helperwrap_kw'):
        # a function that forwards everything through the generic helper (with the via_helper routes the helper is then entered
        # a second time, with another callee, while it is being examined)
        call = 'APPLY(_H%s, *args, **kwargs)' % name if kind == 'helperwrap' else 'APPLYK(*args, fn=_H%s, **kwargs)' % name
        return ('def _H%s(%s):\n    LOG.append(%s)\n    return %r\ndef %s(*args, **kwargs):\n    return %s\n'
                % (name, params, rec, name, name, call))
    if kind == 'partial':
        # a functools.partial object whose first parameter is bound
        pre = Par('pre', PO if any(p.kind == PO for p in spec) else POK)
        return ('def _P%s(%s):\n    LOG.append(%s)\n    return %r\n%s = functools.partial(_P%s, 77)\n'
                % (name, universe.spec_text((pre,) + tuple(spec)), rec, name, name, name))
    if kind == 'kwoargs':
        pok = [p.name for p in spec if p.kind == POK]
        if not pok:
            return _leaf_src(i, spec, 'func')
        return ('@modifiers.kwoargs(%r)\ndef %s(%s):\n    LOG.append(%s)\n    return %r\n' % (pok[-1], name, params, rec, name))
    if kind == 'declared':
        # the callee declares its own forwarding with forwards_to_function (visible to inspect through emulate=True)
        return ('def _T%s(%s):\n    LOG.append(%s)\n    return %r\n'
                '@specifiers.forwards_to_function(_T%s, emulate=True)\ndef %s(lead=0, *args, **kwargs):\n    return _T%s(*args, **kwargs)\n'
                % (name, params, rec, name, name, name, name)) if not any(p.name == 'lead' for p in spec) else _leaf_src(i, spec, 'func')
    if kind == 'midwrap':
        # a forwarding function with a parameter of its own, discovered (chain of depth 2)
        return ('def _H%s(%s):\n    LOG.append(%s)\n    return %r\ndef %s(mid, *args, **kwargs):\n    return _H%s(*args, **kwargs)\n'
                % (name, params, rec, name, name, name))
    raise ValueError(kind)


def effective_spec(obj, declared):
    """What the callee object accepts (its declared spec, or what inspect reports for the
    kinds that transform it: partial, modifiers, declared forwarding, forwarding with own parameters)."""
    import inspect
    try:
        sig = inspect.signature(obj)
    except (ValueError, TypeError):
        return declared
    return tuple(Par(p.name, int(p.kind), None if p.default is p.empty else '1') for p in sig.parameters.values())


def star_names(outer):
    va = next((p.name for p in outer if p.kind == VP), None)
    vk = next((p.name for p in outer if p.kind == VK), None)
    return va, vk


def _call_expr(prog, call, callee_expr, outer, j):
    va, vk = star_names(outer)
    parts = []
    named = [p.name for p in outer if p.kind in (PO, POK, KWO)]
    inexpr = {'pop': "%s.pop('zz9', None)" % vk, 'mutate': 'MUTATE(%s)' % vk}.get(call.get('inarg'))
    for i in range(call['npos']):
        if inexpr and i == call['npos'] - 1:
            parts.append(inexpr)
            inexpr = None
        elif prog.get('argexpr') == 'param' and named and i == 0:
            parts.append(named[0])
        else:
            parts.append(str(1000 + 10 * j + i))
    sa = call['sa']
    if sa == 'own':
        parts.append('*' + va)
    elif sa == 'foreign':
        parts.append('*HA')
    elif sa == 'own+f':
        parts += ['*' + va, '*HA']
    elif sa == 'own+own':
        parts += ['*' + va, '*' + va]
    elif sa == 'own+pos':
        parts += ['*' + va, str(2000 + j)]
    for n in call['names']:
        if inexpr:
            parts.append('%s=%s' % (n, inexpr))
            inexpr = None
        else:
            parts.append('%s=%r' % (n, 'kv_' + n))
    sk = call['sk']
    if sk == 'own':
        parts.append('**' + vk)
    elif sk == 'foreign':
        parts.append('**HK')
    elif sk == 'own+f':
        parts += ['**' + vk, '**HK']
    elif sk == 'own+own':
        parts += ['**' + vk, '**' + vk]
    if prog['route'] == 'partial_inner':
        return 'functools.partial(%s)' % ', '.join([callee_expr] + parts)
    if prog['route'] in ('via_helper', 'self_attr_store_arg') and not call.get('unres'):
        return 'APPLY(%s)' % ', '.join([callee_expr] + parts)
    if prog['route'] == 'via_helper_kw' and not call.get('unres'):
        at = next((i for i, x in enumerate(parts) if x.startswith('**') or ('=' in x and not x.startswith('*'))), len(parts))
        return 'APPLYK(%s)' % ', '.join(parts[:at] + ['fn=' + callee_expr] + parts[at:])
    return '%s(%s)' % (callee_expr, ', '.join(parts))


def _stmt(ctx, expr, j):
    """Statements placing `expr` in a context; the value ends up in `_r<j>`."""
    r = '_r%d' % j
    if ctx == 'return' or ctx == 'assign':
        return '%s = %s\n' % (r, expr)
    if ctx == 'if':
        return '%s = None\nif FLAG:\n    %s = %s\n' % (r, r, expr)
    if ctx == 'try':
        return 'try:\n    %s = %s\nfinally:\n    pass\n' % (r, expr)
    if ctx == 'with':
        return 'with CM():\n    %s = %s\n' % (r, expr)
    if ctx == 'listcomp':
        return '%s = [%s for _i in (0,)][0]\n' % (r, expr)
    if ctx == 'dictcomp':
        return '%s = {0: %s for _i in (0,)}[0]\n' % (r, expr)
    if ctx == 'genexp':
        return '%s = list(%s for _i in (0,))[0]\n' % (r, expr)
    if ctx == 'nested':
        return 'def _inner%d():\n    return %s\n%s = _inner%d()\n' % (j, expr, r, j)
    if ctx == 'nested2':
        return ('def _outer%d():\n    def _inner%d():\n        return %s\n    return _inner%d()\n%s = _outer%d()\n'
                % (j, j, expr, j, r, j))
    if ctx == 'lambda':
        return '%s = (lambda: %s)()\n' % (r, expr)
    if ctx == 'nested_decoyarg':
        return 'def _inner%d():\n    return DECOY(%s)\n%s = _inner%d()\n' % (j, expr, r, j)
    if ctx == 'lambda_decoykw':
        return '%s = (lambda: DECOY(x=%s))()\n' % (r, expr)
    if ctx == 'text_col0':
        # an unrelated multi-line string whose text starts in column 0 (less indented than a method's def)
        return '_txt%d = \"\"\"text\n%sin column zero\n\"\"\"\n%s = %s\n' % (j, COL0, r, expr)
    if ctx == 'continuation_col0':
        return '%s = DECOY(%s,\n%s0)\n' % (r, expr, COL0)
    if ctx == 'loop_rebinds_args':
        # the second iteration forwards what the first one left behind
        return 'for _i%d in (0, 1):\n    %s = %s\n    {A} = HA\n' % (j, r, expr)
    if ctx == 'loop_rebinds_kwargs':
        return 'for _i%d in (0, 1):\n    %s = %s\n    {K} = dict(HK)\n' % (j, r, expr)
    if ctx == 'comploop_mutates_kwargs':
        # a comprehension is a loop too: its element is evaluated once per item, the second time after the first one's side effects
        return '%s = [(%s, {K}.clear(), {K}.update(HK))[0] for _i%d in (0, 1)][-1]\n' % (r, expr, j)
    if ctx == 'comp_rebinds_args':
        return '%s = [%s for {A} in (HA,)][0]\n' % (r, expr)
    if ctx == 'comp_rebinds_kwargs':
        return '%s = [%s for {K} in (dict(HK),)][0]\n' % (r, expr)
    # the first clause of a generator expression: its iterable belongs to the enclosing scope, its target does not
    if ctx == 'genexp_rebinds_args':
        return '%s = list(%s for {A} in (HA,))[0]\n' % (r, expr)
    if ctx == 'genexp_rebinds_kwargs':
        return '%s = list(%s for {K} in (dict(HK),))[0]\n' % (r, expr)
    if ctx == 'genexp_lazy':
        # a generator expression runs when it is consumed
        return '_gen%d = (%s for _i in (0,))\n%s = list(_gen%d)[0]\n' % (j, expr, r, j)
    if ctx == 'genexp_lazy_early':
        return '_gen%d = (%s for _i in (0,))\n%s%s = list(_gen%d)[0]\n' % (j, expr, HOIST, r, j)
    if ctx == 'async_nested':
        return 'async def _co%d():\n    return %s\n%s = RUN(_co%d())\n' % (j, expr, r, j)
    if ctx == 'async_nested_early':
        return 'async def _co%d():\n    return %s\n%s%s = RUN(_co%d())\n' % (j, expr, HOIST, r, j)
    if ctx == 'nested_early':
        return 'def _inner%d():\n    return %s\n%s%s = _inner%d()\n' % (j, expr, HOIST, r, j)
    if ctx == 'lambda_early':
        return '_lam%d = lambda: %s\n%s%s = _lam%d()\n' % (j, expr, HOIST, r, j)
    if ctx == 'nested_listcomp':
        return 'def _inner%d():\n    return [%s for _i in (0,)][0]\n%s = _inner%d()\n' % (j, expr, r, j)
    if ctx == 'lambda_dictcomp':
        return '%s = (lambda: {0: %s for _i in (0,)}[0])()\n' % (r, expr)
    if ctx == 'nested_listcomp_early':
        return 'def _inner%d():\n    return [%s for _i in (0,)][0]\n%s%s = _inner%d()\n' % (j, expr, HOIST, r, j)
    if ctx == 'lambda_dictcomp_early':
        return '_lam%d = lambda: {0: %s for _i in (0,)}[0]\n%s%s = _lam%d()\n' % (j, expr, HOIST, r, j)
    if ctx == 'nested_genexp_early':
        return 'def _inner%d():\n    return list(%s for _i in (0,))[0]\n%s%s = _inner%d()\n' % (j, expr, HOIST, r, j)
    if ctx == 'lambda_setcomp_early':
        return '_lam%d = lambda: list({%s for _i in (0,)})[0]\n%s%s = _lam%d()\n' % (j, expr, HOIST, r, j)
    if ctx == 'nested_lambda':
        # the intermediate scope binds no name at all
        return 'def _outer%d():\n    return (lambda: %s)()\n%s = _outer%d()\n' % (j, expr, r, j)
    if ctx == 'lambda_lambda':
        return '%s = (lambda: (lambda: %s)())()\n' % (r, expr)
    if ctx == 'lambda_subscript':
        return '%s = (lambda: (%s, 0)[0])()\n' % (r, expr)
    if ctx == 'lambda_default':
        return '%s = (lambda _v=%s: _v)()\n' % (r, expr)
    if ctx == 'decoyarg':
        return '%s = DECOY(%s)\n' % (r, expr)
    if ctx == 'ternary':
        return '%s = %s if FLAG else None\n' % (r, expr)
    if ctx == 'walrus':
        return 'if (%s := %s) is not None:\n    pass\n' % (r, expr)
    if ctx == 'fstring':
        return '%s = %s\n_s%d = f"{%s!r}"\n' % (r, expr, j, r)
    if ctx == 'starred_display':
        return '%s = [*(%s,)][0]\n' % (r, expr)
    raise ValueError(ctx)


def render(prog):
    outer = [Par(*p) for p in prog['outer']]
    leaves = [tuple(Par(*p) for p in l) for l in prog['leaves']]
    route = prog['route']
    va, vk = star_names(outer)
    pre = ['import functools, types, contextlib',
           'from sigtools import modifiers, specifiers',
           'LOG = []', 'RES = []', 'HA = ()', 'HK = {}', 'SEL = 0', 'FLAG = True',
           'def DECOY(x=None, *a, **k):\n    return x',
           'def MUTATE(d):\n    d.update(HK)',
           '@contextlib.contextmanager\ndef CM():\n    yield',
           'def PASS(f):\n    return f',
           'def RUN(c):\n    try:\n        c.send(None)\n    except StopIteration as e:\n        return e.value',
           'def WRAPPING(f):\n    @functools.wraps(f)\n    def _wrapping(*args, **kwargs):\n        return f(*args, **kwargs)\n    return _wrapping',
           'def ALT(alt_only, /, *, alt_kw):\n    LOG.append({"__fn__": "ALT"})\n    return "ALT"',
           'def OTHER(o1, o2=2, *, o3=3):\n    return "OTHER"',
           'def APPLY(fn, /, *a, **k):\n    return fn(*a, **k)',
           'def APPLYK(*a, fn, **k):\n    return fn(*a, **k)',
           ]
    as_method = route in ('self_method', 'classmethod_cls', 'self_shadow_nested')
    leaf_srcs = [_leaf_src(i, l, prog['lkinds'][i], as_method=as_method,
                           deco='@classmethod\n' if route == 'classmethod_cls' else '')
                 for i, l in enumerate(leaves)]
    # callee expressions and wrapper header -----------------------------------------
    extra_first = []            # parameters prepended to the wrapper's own
    callee_expr = {}
    for i in range(len(leaves)):
        n = 'L%d' % i
        callee_expr[i] = {
            'global': n, 'closure': '_c%d' % i, 'attr': 'NS.sub.%s' % n, 'self_method': 'self.%s' % n,
            'self_attr': 'self.fn%d' % i, 'self_attr_store': 'self.fn%d' % i, 'self_attr_store_arg': 'self.fn%d' % i, 'param': 'fn%d' % i, 'partial_inner': n,
            'shadow_posonly': n, 'shadow_lambda': n, 'shadow_nested': n, 'shadow_comp': n, 'local_rebind': n,
            'missing': 'MISSING%d' % i, 'noncallable': 'NONCALLABLE', 'classmethod_cls': 'cls.%s' % n,
            'closure_like_global': 'ALT' if i == 0 else '_c%d' % i,      # the closure variable is spelled like a module global
            'param_shadow_lambda': 'fn%d' % i, 'param_shadow_kwonly': 'fn%d' % i, 'self_shadow_nested': 'self.%s' % n, 'param_default': 'fn%d' % i,
            'via_helper': n, 'via_helper_kw': n,
        }[route]
    has_po = any(p.kind == PO for p in outer)
    first_kind = PO if has_po else POK
    if route in ('self_method', 'self_attr', 'self_attr_store', 'self_attr_store_arg', 'self_shadow_nested'):
        extra_first = [Par('self', first_kind)]
    elif route == 'classmethod_cls':
        extra_first = [Par('cls', first_kind)]
    elif route in ('param', 'param_shadow_lambda', 'param_shadow_kwonly'):
        extra_first = [Par('fn%d' % i, first_kind) for i in range(len(leaves))]
    hspec = tuple(extra_first) + tuple(outer)
    if route == 'param_default':
        # the callee is a keyword-only parameter with a default; the partial object binds another parameter, so discovery
        # runs with known arguments, but the callee is whatever the caller passes
        fns = tuple(Par('fn%d' % i, KWO, 'ALT') for i in range(len(leaves)))
        cut = next((i for i, p in enumerate(outer) if p.kind == VK), len(outer))
        hspec = (Par('lead', first_kind),) + tuple(outer[:cut]) + fns + tuple(outer[cut:])
    header = universe.spec_text(hspec)
    # body --------------------------------------------------------------------------
    body = []
    fmt = {'A': va or 'args', 'K': vk or 'kwargs'}
    for d in range(prog['decoys']):
        body.append(['_tmp%d = %d\n' % (d, d), 'DECOY(%d, key=%d)\n' % (d, d), 'OTHER(1)\n'][d % 3])
    hoist_at = len(body)
    for t in prog['taints']:
        if t['where'] == 'before':
            body.append((TAINTS.get(t['name']) or HARMLESS[t['name']])[1].format(**fmt) + '\n')
    if route == 'local_rebind':
        body.append(''.join('L%d = ALT\n' % i for i in range(len(leaves))))
    if route in ('self_attr_store', 'self_attr_store_arg'):
        # the function itself replaces the attribute it then calls: what it holds while the signature is retrieved says nothing
        body.append(''.join('self.fn%d = ALT\n' % i for i in range(len(leaves))))
    if prog.get('mention'):
        e0 = callee_expr[prog['calls'][0]['to']]
        if prog['mention'] == 'base' and '.' in e0:
            e0 = e0.rsplit('.', 1)[0]
        body.append('DECOY(%s)\n' % e0)
    for j, c in enumerate(prog['calls']):
        if c.get('unres'):
            body.append('_loc%d = DECOY(ALT)\n' % j)
    stmts = []
    hoisted = []
    for j, c in enumerate(prog['calls']):
        expr = _call_expr(prog, c, '_loc%d' % j if c.get('unres') else callee_expr[c['to']], outer, j)
        if route == 'shadow_posonly':
            expr = '(lambda L%d, /: %s)(ALT)' % (c['to'], expr)
        elif route == 'shadow_lambda':
            expr = '(lambda L%d: %s)(ALT)' % (c['to'], expr)
        elif route == 'shadow_comp':
            expr = '[%s for L%d in (ALT,)][0]' % (expr, c['to'])
        elif route == 'param_shadow_lambda':
            # the lambda's parameter is spelled like the wrapper's (whose value is known through the partial object)
            expr = '(lambda fn%d: %s)(ALT)' % (c['to'], expr)
        elif route == 'param_shadow_kwonly':
            # the same with a keyword-only parameter of the nested function
            expr = '(lambda *, fn%d=ALT: %s)()' % (c['to'], expr)
        elif route == 'self_shadow_nested':
            # a nested function's own `self` is another object
            expr = '(lambda self: %s)(OTHERSELF)' % expr
        elif route == 'shadow_nested':
            stmts.append(None)
        s = _stmt(c['ctx'], expr, j)
        if HOIST in s:
            if route == 'shadow_nested':
                s = s.replace(HOIST, '')
            else:
                early, s = s.split(HOIST)
                hoisted.append(early)
        if c['ctx'] in ('comp_rebinds_args', 'comp_rebinds_kwargs', 'genexp_rebinds_args', 'genexp_rebinds_kwargs', 'loop_rebinds_args', 'loop_rebinds_kwargs', 'comploop_mutates_kwargs'):
            s = s.replace('{A}', va or 'args').replace('{K}', vk or 'kwargs')
        if route == 'shadow_nested':
            stmts.pop()
            s = 'def _sh%d(L%d):\n%s    return _r%d\n_r%d = _sh%d(ALT)\n' % (j, c['to'], _indent(s), j, j, j)
        stmts.append(s + 'RES.append(_r%d)\n' % j)
    body[hoist_at:hoist_at] = hoisted
    if prog['multi'] == 'branch' and len(stmts) > 1:
        for j, s in enumerate(stmts):
            body.append('%s SEL == %d:\n%s' % ('if' if j == 0 else 'elif', j, _indent(s)))
        body.append('else:\n    pass\n')
        ret = 'return None\n'
    else:
        body.extend(stmts)
        ret = 'return None\n'
    for t in prog['taints']:
        if t['where'] == 'after':
            body.append((TAINTS.get(t['name']) or HARMLESS[t['name']])[1].format(**fmt) + '\n')
    body.append(ret)
    deco = {'none': '', 'passthrough': '@PASS\n', 'wraps': '@functools.wraps(OTHER)\n', 'wrapping': '@WRAPPING\n',
            'kwoargs': '', 'autokwoargs': '@modifiers.autokwoargs\n'}[prog['deco']]
    if prog['deco'] == 'kwoargs':
        deco = '@modifiers.kwoargs(%r)\n' % [p.name for p in outer if p.kind == POK][-1]
    wdef = '%sdef w(%s):\n%s' % (deco, header, _indent(''.join(body)))
    # module layout -----------------------------------------------------------------
    src = '\n'.join(pre) + '\n'
    if route == 'self_shadow_nested':
        src += ('class _Other(object):\n' + ''.join('    def L%d(self, alt_only, /, *, alt_kw):\n        return "other"\n' % i for i in range(len(leaves)))
                + 'OTHERSELF = _Other()\n')
    if route in ('self_method', 'classmethod_cls', 'self_shadow_nested'):
        if route == 'classmethod_cls':
            wdef = '@classmethod\n' + wdef
        src += 'class K(object):\n' + _indent(''.join(leaf_srcs)) + _indent(wdef) + 'TARGET = K().w\nWFUNC = K.__dict__["w"]\n'
        if route == 'classmethod_cls':
            src += 'WFUNC = WFUNC.__func__\n'
    elif route in ('self_attr', 'self_attr_store', 'self_attr_store_arg'):
        src += ''.join(leaf_srcs)
        init = 'def __init__(self):\n' + ''.join('    self.fn%d = L%d\n' % (i, i) for i in range(len(leaves)))
        src += 'class K(object):\n' + _indent(init) + _indent(wdef) + 'TARGET = K().w\nWFUNC = K.__dict__["w"]\n'
    elif route in ('closure', 'closure_like_global'):
        src += ''.join(leaf_srcs)
        cname = (lambda i: 'ALT' if (route == 'closure_like_global' and i == 0) else '_c%d' % i)
        src += 'def _make():\n' + ''.join('    %s = L%d\n' % (cname(i), i) for i in range(len(leaves))) + _indent(wdef) + '    return w\n'
        src += 'TARGET = WFUNC = _make()\n'
    elif route == 'attr':
        src += ''.join(leaf_srcs)
        src += 'NS = types.SimpleNamespace(sub=types.SimpleNamespace(%s))\n' % ', '.join('L%d=L%d' % (i, i) for i in range(len(leaves)))
        src += wdef + 'TARGET = WFUNC = w\n'
    elif route in ('param', 'param_shadow_lambda', 'param_shadow_kwonly'):
        src += ''.join(leaf_srcs) + wdef
        src += 'WFUNC = w\nTARGET = functools.partial(w, %s)\n' % ', '.join('L%d' % i for i in range(len(leaves)))
    elif route == 'param_default':
        src += ''.join(leaf_srcs) + wdef + 'WFUNC = w\nTARGET = functools.partial(w, 0)\n'
    elif route == 'noncallable':
        src += ''.join(leaf_srcs) + 'NONCALLABLE = 5\n' + wdef + 'TARGET = WFUNC = w\n'
    else:
        src += ''.join(leaf_srcs) + wdef + 'TARGET = WFUNC = w\n'
    return ''.join(l[1:] if l.startswith(COL0) else l for l in src.splitlines(True))


# --------------------------------------------------------------------------- ground truth

def taint_state(prog, upto=None):
    """What the generator wrote about each star, as seen by forwarding call number `upto`
    (None: by the last one): {'args': (tainted?, flow), 'kwargs': ...} with flow in 'same'
    (caller content reaches the callee unchanged), 'hidden' (only harness-controlled values),
    'both', 'dead' (deleted).  Taint statements placed before the forwarding statements count
    (for calls in nested scopes the generator only places taints before -- see normalise), and
    so does an argument expression of this or an earlier call that touches **kwargs (it is
    evaluated before the mapping is unpacked)."""
    st = {'args': (False, 'same'), 'kwargs': (False, 'same')}

    def apply(target, flow):
        cur = st[target][1]
        if flow == 'hidden':
            new = 'hidden'
        elif flow in ('dead', 'broken'):
            new = flow
        elif flow == 'both':
            new = cur if cur in ('dead', 'broken', 'hidden') else 'both'
        else:
            new = cur
        st[target] = (True, new)
    for t in prog['taints']:
        if t['name'] in HARMLESS or t['where'] != 'before':
            continue
        target, _, flow = TAINTS[t['name']]
        apply(target, flow)
    calls = prog['calls']
    last = len(calls) - 1 if upto is None else upto
    if upto is not None:
        if calls[upto]['ctx'] in ('comp_rebinds_args', 'genexp_rebinds_args'):
            apply('args', 'hidden')
        elif calls[upto]['ctx'] in ('comp_rebinds_kwargs', 'genexp_rebinds_kwargs'):
            apply('kwargs', 'hidden')
        elif calls[upto]['ctx'] == 'loop_rebinds_args':
            apply('args', 'both')
        elif calls[upto]['ctx'] in ('loop_rebinds_kwargs', 'comploop_mutates_kwargs'):
            apply('kwargs', 'both')
    for c in calls[:last + 1]:
        if c.get('inarg') == 'pop':
            apply('kwargs', 'same')
        elif c.get('inarg') == 'mutate':
            apply('kwargs', 'both')
    return st


def ground_truth(prog):
    """Per call: the forwards() arguments that describe it (docs/forwards-howto.rst):
    num_args, named_args, use_varargs, use_varkwargs, hide_args, hide_kwargs, partial; and
    'ignored' when neither star is forwarded."""
    outer = [Par(*p) for p in prog['outer']]
    has_va = any(p.kind == VP for p in outer)
    has_vk = any(p.kind == VK for p in outer)
    out = []
    for j, c in enumerate(prog['calls']):
        ts = taint_state(prog, j)

        def flags(mode, has, tainted):
            if mode == 'none':
                return False, False
            if mode == 'own' and has and not tainted:
                return True, False
            return False, True
        ua, ha = flags(c['sa'], has_va, ts['args'][0])
        uk, hk = flags(c['sk'], has_vk, ts['kwargs'][0])
        out.append({'to': c['to'], 'num_args': c['npos'], 'named_args': list(c['names']),
                    'use_varargs': ua, 'use_varkwargs': uk, 'hide_args': ha, 'hide_kwargs': hk,
                    'partial': prog['route'] == 'partial_inner', 'ignored': not (ua or uk),
                    'unres': bool(c.get('unres'))})
    return out


class Built(object):
    def __init__(self, prog):
        self.prog = prog
        self.src = render(prog)
        self.g = realfn.load(self.src)
        self.target = self.g['TARGET']
        self.wfunc = self.g['WFUNC']
        self.outer = tuple(Par(*p) for p in prog['outer'])
        self.leaves = [tuple(Par(*p) for p in l) for l in prog['leaves']]
        self.truth = ground_truth(prog)
        self.declared_leaves = list(self.leaves)
        for i, k in enumerate(prog['lkinds']):
            if k == 'midwrap':
                self.leaves[i] = (Par('mid', POK),) + tuple(self.leaves[i])
            elif k in ('partial', 'kwoargs', 'declared'):
                try:
                    self.leaves[i] = effective_spec(self.leaf_obj(i), self.leaves[i])
                except Exception:
                    pass

    def close(self):
        realfn.unload(self.g)

    def prime_with_failure(self):
        """A first retrieval while the callees do not exist yet (module globals defined later): whatever it returns or raises,
        it must leave nothing behind that changes the next retrieval.  Only for routes that look the callee up in the module."""
        import sigtools
        if self.prog['route'] not in ('global', 'partial_inner', 'attr'):
            return False
        names = [n for n in self.g if (n.startswith('L') and n[1:].isdigit()) or n == 'NS']
        saved = {n: self.g.pop(n) for n in names}
        try:
            try:
                sigtools.signature(self.target)
            except Exception:
                pass
        finally:
            self.g.update(saved)
        return True

    def leaf_obj(self, i):
        """The callee object as the wrapper's call expression sees it."""
        route = self.prog['route']
        if route in ('self_method', 'self_shadow_nested'):
            return getattr(self.target.__self__, 'L%d' % i)
        if route == 'classmethod_cls':
            return getattr(self.g['K'], 'L%d' % i)
        return self.g['L%d' % i]

    def nsel(self):
        return len(self.prog['calls']) if (self.prog['multi'] == 'branch' and len(self.prog['calls']) > 1) else 1

    def execute(self, npos, kws, sel=0, ha=(), hk=None):
        """Really call the target.  Returns (outcome, log) with outcome 'ok', 'TypeError'
        or the name of another exception type."""
        g = self.g
        g['SEL'] = sel
        g['HA'] = tuple(ha)
        g['HK'] = dict(hk or {})
        _hidden.HAV = tuple(ha)
        _hidden.HKV = dict(hk or {})
        del g['LOG'][:]
        del g['RES'][:]
        args = [100 + i for i in range(npos)]
        kwargs = {k: 'k_' + k for k in kws}
        if self.prog['route'] == 'param_default':
            for k in kwargs:
                if k.startswith('fn') and k[2:].isdigit():
                    kwargs[k] = g['OTHER']          # a caller-chosen callee
        try:
            self.target(*args, **kwargs)
        except TypeError as e:
            return 'TypeError', str(e)
        except RecursionError:
            raise
        except Exception as e:
            return type(e).__name__, str(e)
        if self.prog['route'] == 'partial_inner':
            import inspect
            for r in g['RES']:
                if isinstance(r, functools.partial):
                    try:
                        inspect.signature(r)
                    except (ValueError, TypeError) as e:
                        return 'TypeError', 'partial object with unbindable arguments: %s' % e
        return 'ok', list(g['LOG'])


def build(prog):
    return Built(prog)


def skeleton(prog):
    """Structural key of a program (for distinct-case accounting)."""
    return (prog['route'], prog['deco'], prog['multi'],
            tuple((c['to'], c['npos'], tuple(c['names']), c['sa'], c['sk'], c['ctx'], c.get('inarg'), c.get('unres')) for c in prog['calls']),
            prog.get('mention'),
            tuple((t['name'], t['where']) for t in prog['taints']),
            universe.spec_text(tuple(Par(*p) for p in prog['outer'])),
            tuple(universe.spec_text(tuple(Par(*p) for p in l)) for l in prog['leaves']), tuple(prog['lkinds']))
