"""Process environment: interpreter, repo selection, seed, tier, exit codes.

Every check imports sigtools from the *working tree* of the selected repository root
(/repo, or $VERIF_REPO for sensitivity runs against a scratch copy).  sigtools is pure
Python, so "rebuilding from the working tree" is importing it from there; `bootstrap()`
asserts that this is what happened and evidence records the path.
"""
import os
import sys

VERIF_ROOT = os.path.dirname(os.path.dirname(os.path.abspath(__file__)))
REPO_ROOT = os.path.abspath(os.environ.get('VERIF_REPO') or '/repo')
# evidence/ and replays/ are written under VERIF_ROOT, except in sensitivity runs against a
# scratch copy (tools/mutant.sh sets VERIF_OUT so that committed evidence is never clobbered)
OUT_ROOT = os.path.abspath(os.environ.get('VERIF_OUT') or VERIF_ROOT)
GUARD = 'SIGTOOLS_VERIF'

EXIT_OK = 0
EXIT_VIOLATION = 1
EXIT_HARNESS = 2


def seed():
    try:
        return int(os.environ.get('VERIF_SEED', '1') or '1')
    except ValueError:
        return 1


def reexec_if_needed(argv):
    """Pin the hash seed (set iteration order must not influence a run) and make sure the
    selected repository root is first on sys.path in this and every child process."""
    want_pp = REPO_ROOT + os.pathsep + VERIF_ROOT
    pp = os.environ.get('PYTHONPATH', '')
    if os.environ.get('PYTHONHASHSEED') != '0' or not pp.startswith(want_pp):
        env = dict(os.environ)
        env['PYTHONHASHSEED'] = '0'
        env['PYTHONPATH'] = want_pp + (os.pathsep + pp if pp and not pp.startswith(want_pp) else '')
        env[GUARD] = '1'
        env['PYTHONDONTWRITEBYTECODE'] = '1'
        os.execve(sys.executable, [sys.executable] + argv, env)


def bootstrap():
    """Import sigtools and assert it comes from the selected working tree."""
    if REPO_ROOT not in sys.path[:3]:
        sys.path.insert(0, REPO_ROOT)
    if VERIF_ROOT not in sys.path:
        sys.path.insert(1, VERIF_ROOT)
    import sigtools
    here = os.path.abspath(sigtools.__file__)
    if not here.startswith(REPO_ROOT + os.sep):
        raise RuntimeError('sigtools imported from %s, expected under %s' % (here, REPO_ROOT))
    return here
