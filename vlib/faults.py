"""Boundary-crossing fault injection and object snapshots (C16 part B).

A *crossing* is a Python-level call whose callee frame lies outside the sigtools package while
its caller frame (f_back) lies inside it: precisely "a call sigtools makes into outside code"
(inspect machinery, source loading and parsing, user forgers, Python-level attribute getters --
dunder methods invoked by C builtins appear with the sigtools frame as f_back).  C-level builtin
calls on sigtools-owned containers are not crossings.

Injection raises from the profile function on the `call` event of the k-th crossing: the
exception surfaces exactly as if the outside function had raised on entry."""
import os
import sys


class Injected(Exception):
    pass


class InjectedBase(BaseException):
    """Like KeyboardInterrupt / SystemExit: not an Exception, so `except Exception` cleanup misses it."""


def sigtools_dir():
    import sigtools
    return os.path.dirname(os.path.abspath(sigtools.__file__)) + os.sep


class Injector(object):
    def __init__(self, k, exc_type, probe=None):
        self.k = k
        self.n = 0
        self.exc_type = exc_type
        self.where = None
        self.probe = probe          # called at injection time; its result is kept
        self.probe_result = None
        self.dir = sigtools_dir()
        self.tests = os.path.join(self.dir, 'tests') + os.sep
        self._inside = {}
        self.log = [] if k == 0 else None

    def inside(self, code):
        r = self._inside.get(code)
        if r is None:
            fn = code.co_filename
            r = self._inside[code] = fn.startswith(self.dir) and not fn.startswith(self.tests)
        return r

    def prof(self, frame, event, arg):
        if event != 'call':
            return
        back = frame.f_back
        if back is None or self.inside(frame.f_code) or not self.inside(back.f_code):
            return
        self.n += 1
        if self.log is not None:
            self.log.append((frame.f_code.co_name, back.f_code.co_name, back.f_lineno))
        if self.n == self.k:
            self.where = '%s() called from %s:%s' % (frame.f_code.co_name, os.path.basename(back.f_code.co_filename),
                                                     back.f_code.co_name)
            if self.probe is not None:
                self.probe_result = self.probe()
            raise self.exc_type('injected fault #%d' % self.k)


def run_with_fault(action, k, exc_type, probe=None):
    """Run action() with a fault injected at the k-th crossing (k=0: count only).
    Returns (injector, outcome) where outcome is 'returned' or the exception type name."""
    inj = Injector(k, exc_type, probe)
    old = sys.getprofile()
    sys.setprofile(inj.prof)
    try:
        try:
            action()
            outcome = 'returned'
        except BaseException as e:   # classified by the caller; nothing is hidden
            outcome = type(e).__name__
    finally:
        sys.setprofile(old)
    return inj, outcome


def count_crossings(action):
    inj, outcome = run_with_fault(action, 0, Injected)
    return inj.n, outcome


def list_crossings(action):
    """(crossing signatures in order, outcome): signature = (callee, calling sigtools function, line)."""
    inj, outcome = run_with_fault(action, 0, Injected)
    return inj.log, outcome


def select_ks(log, per_signature):
    """Crossing indices (1-based) to inject at: the first `per_signature` occurrences of each
    distinct crossing signature (None = every crossing)."""
    if per_signature is None:
        return list(range(1, len(log) + 1))
    seen = {}
    out = []
    for i, sig in enumerate(log, 1):
        c = seen.get(sig, 0)
        if c < per_signature:
            out.append(i)
        seen[sig] = c + 1
    return out


def snapshot(roots):
    """Attribute names and value identities of every root and of everything reachable through
    __wrapped__, __signature__ and __dict__ (depth-limited).  Plain data, comparable."""
    out = {}
    seen = set()

    def rec(o, path, depth):
        if id(o) in seen or depth > 5:
            return
        seen.add(id(o))
        try:
            d = dict(vars(o))
        except TypeError:
            d = None
        src = getattr(o, 'sources', None) if type(o).__name__ == 'UpgradedSignature' else None
        if isinstance(src, dict):
            # signature objects stored on the inspected callables: their provenance map is part of them
            out[path + '#sources'] = tuple(sorted(
                (str(k), id(v), tuple(id(x) for x in v) if isinstance(v, list) else tuple(sorted((id(a), b) for a, b in v.items())))
                for k, v in src.items())) + (('#id', id(src), ()),)
        if d is not None:
            out[path] = tuple(sorted((k, id(v)) for k, v in d.items()))
            for k in ('__wrapped__', '__signature__', 'func', '_sigtools__forger'):
                if k in d:
                    rec(d[k], path + '.' + k, depth + 1)
                else:
                    # values kept in __slots__ (modifiers objects store __signature__ and func there); descriptors that
                    # compute something (as_forged) are not slots and are left alone
                    for klass in type(o).__mro__:
                        slot = klass.__dict__.get(k)
                        if type(slot).__name__ == 'member_descriptor':
                            try:
                                rec(slot.__get__(o, type(o)), path + '.' + k, depth + 1)
                            except AttributeError:
                                pass
                            break
        for attr in ('__func__', '__self__'):
            try:
                v = object.__getattribute__(o, attr)
            except Exception:
                continue
            if v is not None and not isinstance(v, type(sys)):
                rec(v, path + '.' + attr, depth + 1)
    for i, r in enumerate(roots):
        rec(r, 'root%d' % i, 0)
    return out


def diff_snapshots(a, b):
    out = []
    for k in sorted(set(a) | set(b)):
        if a.get(k) != b.get(k):
            an = dict((x[0], x[1:]) for x in a.get(k, ()))
            bn = dict((x[0], x[1:]) for x in b.get(k, ()))
            lost = sorted(set(an) - set(bn))
            gained = sorted(set(bn) - set(an))
            changed = sorted(x for x in set(an) & set(bn) if an[x] != bn[x])
            out.append('%s: lost=%s gained=%s rebound=%s' % (k, lost, gained, changed))
    return out
