"""Expected outcome of automatic discovery for a program of vlib/progs.py, computed from the
generator's ground truth with the *public* algebra only (signatures.signature / forwards /
merge / mask and sigtools.signature of the callee) -- never from the AST walker.

expected(b) -> Expect(kind, sig, why, per_call)
   kind 'forwarded'  sig is the expected discovery result for b.target
        'plain'      the plain signature is expected (why says which rule applies)
"""
import collections
import functools

from vlib import progs

Expect = collections.namedtuple('Expect', 'kind sig why per_call')

UNK = object()          # stands for "a value unknown until run time"


def callee_signature(callee, call):
    """Signature of the callee as the forwarding call sees it: sigtools.signature with the
    known arguments (values unknown, but their number and names known)."""
    import sigtools
    args = (UNK,) * call['num_args']
    kwargs = dict((n, UNK) for n in call['named_args'])
    return sigtools.signature(callee, args=args, kwargs=kwargs)


def per_call_signatures(b, outer_sig, first_args=()):
    """[(call truth, expected signature | exception)] for every call that forwards a star.
    outer_sig: def-side signature of the function whose body holds the calls."""
    from sigtools import signatures
    out = []
    for t in b.truth:
        if t['ignored']:
            continue
        try:
            callee = b.leaf_obj(t['to'])
            csig = callee_signature(callee, t)
            extra_pos, extra_named = 0, ()
            if b.prog['route'] == 'self_attr_store_arg' and not t.get('unres'):
                # the call is APPLY(self.fn0, ...) and what self.fn0 holds is unknown: forwarding to the helper as it is
                csig = signatures.signature(b.g['APPLY'])
                extra_pos = 1
            elif b.prog['route'] == 'via_helper' and not t.get('unres'):
                # the call is APPLY(callee, ...): what it forwards to is the helper forwarding to the callee, one more positional
                csig = signatures.forwards(signatures.signature(b.g['APPLY']), csig)
                extra_pos = 1
            elif b.prog['route'] == 'via_helper_kw' and not t.get('unres'):
                csig = signatures.forwards(signatures.signature(b.g['APPLYK']), csig)
                extra_named = ('fn',)
            e = signatures.forwards(outer_sig, csig, t['num_args'] + extra_pos, *(extra_named + tuple(t['named_args'])),
                                    use_varargs=t['use_varargs'], use_varkwargs=t['use_varkwargs'],
                                    hide_args=t['hide_args'], hide_kwargs=t['hide_kwargs'], partial=t['partial'])
        except (ValueError, TypeError) as exc:
            e = exc
        out.append((t, e))
    return out


def _function_expectation(b, func_sig):
    """Expected autoforwards results for the *function* holding the calls: a list of
    admissible signatures (the property does not fix the order in which the calls are
    merged, and merge keeps the names of its left operand), or None with the reason for the
    plain signature."""
    import itertools
    from sigtools import signatures
    prog = b.prog
    if prog['route'] in progs.UNRESOLVABLE and prog['route'] != 'self_attr_store_arg':
        return None, 'callee cannot be resolved (%s)' % prog['route'], []
    pcs = per_call_signatures(b, func_sig)
    if not pcs:
        return None, 'no call forwards a star parameter', pcs
    if any(t.get('unres') for t, e in pcs):
        return None, 'the callee of a forwarding call is a local variable (cannot be resolved)', pcs
    for t, e in pcs:
        if isinstance(e, Exception):
            return None, 'call to L%d cannot be combined: %s: %s' % (t['to'], type(e).__name__, e), pcs
    sigs = [e for t, e in pcs]
    out = []
    err = None
    for perm in itertools.permutations(range(len(sigs))):
        try:
            out.append(signatures.merge(*[sigs[i] for i in perm]))
        except ValueError as exc:
            err = exc
    if err is not None:
        # merge is not symmetric in whether it raises only through defects C01/C09 cover;
        # any order raising means "incompatible" is an admissible outcome
        return (out or None), 'the calls are incompatible in some order: %s' % err, pcs
    return out, 'merged over %d call(s)' % len(pcs), pcs


def expected(b):
    """Expect(kind, sig, why, per_call): sig is a *list* of admissible signatures (first =
    calls merged in source order); kind 'plain' means only the plain signature is admissible,
    'forwarded' only the listed ones, 'either' both (the calls are incompatible in some
    merge order)."""
    from sigtools import signatures
    prog = b.prog
    route, deco = prog['route'], prog['deco']
    plain = signatures.signature(b.target)

    def finish(alts, why, pcs, post, suffix=''):
        if alts is None:
            return Expect('plain', [plain], why, pcs)
        kind = 'either' if 'incompatible in some order' in why else 'forwarded'
        try:
            sigs = [post(e) for e in alts]
        except ValueError as exc:
            return Expect('plain', [plain], why + '; post-processing raises %s' % exc, pcs)
        if kind == 'either':
            sigs.append(plain)
        return Expect(kind, sigs, why + suffix, pcs)

    if deco == 'wrapping':
        inner = b.target.__wrapped__
        fsig = signatures.signature(inner)
        alts, why, pcs = _function_expectation(b, fsig)
        if alts is None or 'incompatible in some order' in why:
            alts = (alts or []) + [fsig]      # the inner function falls back to its own plain signature
        outer_def = _own_def_signature(b.target)
        return finish(alts, why.replace('incompatible in some order', 'incompatible in some  order'), pcs,
                      lambda e: signatures.forwards(outer_def, e), ' (through the wrapping decorator)')
    if route in ('self_method', 'self_attr', 'self_attr_store', 'self_attr_store_arg', 'classmethod_cls', 'self_shadow_nested'):
        fsig = signatures.signature(b.target.__func__)
        alts, why, pcs = _function_expectation(b, fsig)
        return finish(alts, why, pcs, lambda e: signatures.mask(e, 1), ', bound')
    if route in ('param', 'param_shadow_lambda', 'param_shadow_kwonly', 'param_default'):
        fsig = signatures.signature(b.target.func)
        alts, why, pcs = _function_expectation(b, fsig)
        n = len(b.target.args)
        return finish(alts, why, pcs, lambda e: signatures.mask(e, n), ', through the partial object')
    if deco == 'wraps':
        fsig = _own_def_signature(b.target)
    else:
        fsig = signatures.signature(b.target)       # modifiers objects advertise their rewritten signature
    alts, why, pcs = _function_expectation(b, fsig)
    return finish(alts, why, pcs, lambda e: e)


def _own_def_signature(func):
    """The function's own def parameters, sourced to it (signatures.signature follows
    __wrapped__, so a copy without that attribute is inspected and the sources re-pointed)."""
    import types
    from sigtools import signatures
    bare = types.FunctionType(func.__code__, func.__globals__, func.__name__, func.__defaults__, func.__closure__)
    bare.__kwdefaults__ = func.__kwdefaults__
    bare.__annotations__ = dict(func.__annotations__)
    s = signatures.signature(bare)
    srcs = dict((k, [func if f is bare else f for f in v]) for k, v in s.sources.items() if k != '+depths')
    srcs['+depths'] = dict((func if f is bare else f, d) for f, d in s.sources['+depths'].items())
    return s.replace(sources=srcs)


def _default_view(v):
    import types
    # generated modules are loaded afresh for every program: a function default is compared by name
    return ('function', v.__qualname__) if isinstance(v, types.FunctionType) else v


def param_list(sig):
    return [(p.name, int(p.kind), None if p.default is p.empty else _default_view(p.default),
             None if p.annotation is p.empty else p.annotation) for p in sig.parameters.values()]


def label(f):
    if isinstance(f, functools.partial):
        return 'partial(%s)' % label(f.func)
    return getattr(f, '__qualname__', None) or getattr(f, '__name__', None) or type(f).__name__


def ident(f):
    """Identity of a callable up to the re-creation of bound method objects."""
    import types
    if isinstance(f, types.MethodType):
        return ('method', id(f.__func__), id(f.__self__))
    return id(f)


def sources_view(sig, by_label=False, partial_shift=None):
    """sources as comparable plain data: {name: [callable ids | labels]}, {callable: depth}"""
    key = label if by_label else ident
    names = dict((k, [key(f) for f in v]) for k, v in sig.sources.items() if k != '+depths')
    depths = dict((key(f), d) for f, d in sig.sources['+depths'].items())
    return names, depths
