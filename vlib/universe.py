"""The signature universe: plain-data specs, enumerators, renderers, Hypothesis strategies.

A spec is a tuple of Par(name, kind, default, ann):
  kind    0 positional-only, 1 positional-or-keyword, 2 *args, 3 keyword-only, 4 **kwargs
          (the integer values of inspect._ParameterKind)
  default None (required) or a Python source expression (e.g. '1')
  ann     None or a Python source expression
Specs are always *valid* Python parameter lists by construction.
"""
import collections
import itertools

PO, POK, VP, KWO, VK = 0, 1, 2, 3, 4
Par = collections.namedtuple('Par', 'name kind default ann')
Par.__new__.__defaults__ = (None, None)


def par(name, kind, default=None, ann=None):
    return Par(name, kind, default, ann)


def spec_text(spec, annotations=True, defaults=True):
    """Render a spec as the inside of a def's parentheses."""
    out = []
    last_po = max([i for i, p in enumerate(spec) if p.kind == PO], default=-1)
    has_va = any(p.kind == VP for p in spec)
    star_done = False
    for i, p in enumerate(spec):
        if p.kind == KWO and not has_va and not star_done:
            out.append('*')
            star_done = True
        t = {VP: '*', VK: '**'}.get(p.kind, '') + p.name
        if annotations and p.ann is not None:
            t += ': ' + p.ann
        if defaults and p.default is not None:
            t += ('=' if p.ann is None or not annotations else ' = ') + p.default
        out.append(t)
        if i == last_po:
            out.append('/')
    return ', '.join(out)


def spec_names(spec):
    return [p.name for p in spec]


def spec_key(spec):
    return spec_text(spec)


def valid_spec(spec):
    """Python's ordering rules (used only by tests of the generators themselves)."""
    kinds = [p.kind for p in spec]
    if kinds != sorted(kinds):
        return False
    if kinds.count(VP) > 1 or kinds.count(VK) > 1:
        return False
    if len(set(p.name for p in spec)) != len(spec):
        return False
    seen_default = False
    for p in spec:
        if p.kind in (PO, POK):
            if p.default is not None:
                seen_default = True
            elif seen_default:
                return False
    return True


def enum_specs(names, max_named, star_names=('args',), kw_names=('kwargs',),
               defaults=True, min_named=0):
    """All specs with min_named..max_named named parameters drawn (ordered, without
    replacement) from `names`, every split into po|pok|kwo, every admissible default
    pattern, each star parameter absent or spelled one of the given ways.
    Size-ordered: fewer named parameters first."""
    out = []
    for n in range(min_named, max_named + 1):
        for nm in itertools.permutations(names, n):
            for i in range(n + 1):
                for j in range(i, n + 1):
                    for ds in itertools.product((False, True) if defaults else (False,), repeat=n):
                        seen = False
                        ok = True
                        for d in ds[:j]:
                            if d:
                                seen = True
                            elif seen:
                                ok = False
                                break
                        if not ok:
                            continue
                        for va in (None,) + tuple(star_names):
                            for vk in (None,) + tuple(kw_names):
                                ps = []
                                for k, (x, d) in enumerate(zip(nm, ds)):
                                    kind = PO if k < i else POK if k < j else KWO
                                    ps.append((x, kind, '1' if d else None))
                                spec = [Par(x, k, d) for x, k, d in ps if k in (PO, POK)]
                                if va:
                                    spec.append(Par(va, VP))
                                spec += [Par(x, k, d) for x, k, d in ps if k == KWO]
                                if vk:
                                    spec.append(Par(vk, VK))
                                out.append(tuple(spec))
    # different (i, j, permutation) choices never coincide, but keep it a set to be safe
    seen = set()
    res = []
    for s in out:
        if s not in seen:
            seen.add(s)
            res.append(s)
    return res


def spec_from_sig(sig):
    """Plain-data view of an inspect.Signature (defaults/annotations by repr)."""
    out = []
    for p in sig.parameters.values():
        out.append(Par(p.name, int(p.kind),
                       None if p.default is p.empty else repr(p.default),
                       None if p.annotation is p.empty else repr(p.annotation)))
    return tuple(out)


def sig_view(sig):
    """(name, kind, has_default) triples: all the binding model needs."""
    return tuple((p.name, int(p.kind), p.default is not p.empty) for p in sig.parameters.values())


def spec_view(spec):
    return tuple((p.name, p.kind, p.default is not None) for p in spec)


# ---------------------------------------------------------------------------------------
# Hypothesis strategies (constructive: every draw is a valid spec)

def st_spec(names, max_named=5, star_names=('args', 'p'), kw_names=('kwargs', 'k'),
            p_star=0.5, default_exprs=('1', '1', 'None', '0', "''"), ann_exprs=None):
    from hypothesis import strategies as st

    @st.composite
    def build(draw):
        n = draw(st.integers(0, min(max_named, len(names))))
        nm = draw(st.permutations(list(names)))[:n]
        i = draw(st.integers(0, n))
        j = draw(st.integers(i, n))
        # positional defaults: a cut index; keyword-only: independent bits
        cut = draw(st.integers(0, j))
        if draw(st.booleans()):
            cut = j  # bias: half of the draws have no positional default
        spec = []
        for k in range(j):
            d = draw(st.sampled_from(default_exprs)) if k >= cut else None
            a = draw(st.sampled_from(ann_exprs)) if ann_exprs and draw(st.booleans()) else None
            spec.append(Par(nm[k], PO if k < i else POK, d, a))
        if draw(st.floats(0, 1)) < p_star:
            spec.append(Par(draw(st.sampled_from(star_names)), VP,
                            None, draw(st.sampled_from(ann_exprs)) if ann_exprs and draw(st.booleans()) else None))
        for k in range(j, n):
            d = draw(st.sampled_from(default_exprs)) if draw(st.booleans()) else None
            a = draw(st.sampled_from(ann_exprs)) if ann_exprs and draw(st.booleans()) else None
            spec.append(Par(nm[k], KWO, d, a))
        if draw(st.floats(0, 1)) < p_star:
            spec.append(Par(draw(st.sampled_from(kw_names)), VK,
                            None, draw(st.sampled_from(ann_exprs)) if ann_exprs and draw(st.booleans()) else None))
        return tuple(spec)
    return build()


def st_edit(spec_strategy, names, star_names=('args', 'p'), kw_names=('kwargs', 'k')):
    """A spec derived from a base spec by a few independent edits (drop / rename /
    re-kind a parameter, add / remove a star, toggle a default).  Used to draw tuples of
    *related* signatures: uniformly random tuples are mostly incompatible."""
    from hypothesis import strategies as st

    @st.composite
    def build(draw, base):
        ps = [list(p) for p in base]
        for _ in range(draw(st.integers(0, 3))):
            op = draw(st.sampled_from(['drop', 'rename', 'kind', 'star', 'kwstar', 'default', 'add']))
            named = [k for k, p in enumerate(ps) if p[1] in (PO, POK, KWO)]
            if op == 'drop' and named:
                del ps[draw(st.sampled_from(named))]
            elif op == 'rename' and named:
                k = draw(st.sampled_from(named))
                free = [x for x in names if x not in [p[0] for p in ps]]
                if free:
                    ps[k][0] = draw(st.sampled_from(free))
            elif op == 'kind' and named:
                k = draw(st.sampled_from(named))
                ps[k][1] = draw(st.sampled_from([PO, POK, KWO]))
            elif op == 'star':
                if any(p[1] == VP for p in ps):
                    ps = [p for p in ps if p[1] != VP]
                else:
                    ps.append([draw(st.sampled_from(star_names)), VP, None, None])
            elif op == 'kwstar':
                if any(p[1] == VK for p in ps):
                    ps = [p for p in ps if p[1] != VK]
                else:
                    ps.append([draw(st.sampled_from(kw_names)), VK, None, None])
            elif op == 'default' and named:
                k = draw(st.sampled_from(named))
                ps[k][2] = None if ps[k][2] is not None else '1'
            elif op == 'add':
                free = [x for x in names if x not in [p[0] for p in ps]]
                if free:
                    ps.append([draw(st.sampled_from(free)), draw(st.sampled_from([PO, POK, KWO])),
                               draw(st.sampled_from([None, '1'])), None])
        return normalise(ps)
    return spec_strategy.flatmap(lambda base: st.tuples(st.just(base), build(base)))


def normalise(ps):
    """Re-establish Python's ordering rules after edits: stable sort by kind, positional
    defaults made contiguous at the end (a required positional after a defaulted one
    gets a default), duplicate names dropped, star names not colliding."""
    seen = set()
    out = []
    for p in sorted((list(p) for p in ps), key=lambda p: p[1]):
        if p[0] in seen:
            continue
        seen.add(p[0])
        out.append(p)
    have_default = False
    for p in out:
        if p[1] in (PO, POK):
            if p[2] is not None:
                have_default = True
            elif have_default:
                p[2] = '1'
    va = [p for p in out if p[1] == VP][:1]
    vk = [p for p in out if p[1] == VK][:1]
    out = [p for p in out if p[1] in (PO, POK)] + va + [p for p in out if p[1] == KWO] + vk
    return tuple(Par(*p) for p in out)
