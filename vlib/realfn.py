"""Real functions / modules compiled from generated source, with the text registered in
linecache (mtime None => never invalidated, the doctest/IPython mechanism) so that
inspect.getsource -- and therefore sigtools' source analysis -- works without disk I/O."""
import functools
import itertools
import linecache

from vlib import universe

_counter = itertools.count()


def load(src, extra_globals=None, register=True, flags=0, modname='verifgen'):
    """exec `src` in a fresh globals dict; returns the dict."""
    n = next(_counter)
    fn = '<verif-gen-%d>' % n
    # code objects compare equal across compilations of the same text (the file name is not part of the comparison): every
    # load starts at another line so that no two generated functions are interchangeable as dictionary keys
    src = '\n' * (n % 997) + src
    if register:
        linecache.cache[fn] = (len(src), None, src.splitlines(True), fn)
    g = {'__name__': modname, 'functools': functools}
    if extra_globals:
        g.update(extra_globals)
    g['__verif_file__'] = fn
    exec(compile(src, fn, 'exec', flags=flags, dont_inherit=True), g)
    return g


def unload(g):
    linecache.cache.pop(g.get('__verif_file__'), None)


def body_return_locals(spec, fname):
    items = ', '.join('%r: %s' % (p.name, p.name) for p in spec)
    return 'return {%s}' % (("'__fn__': %r" % fname) + (', ' + items if items else ''))


class T9(object):
    """A class that is generic / has attributes only for the type checker."""


def needs_future(spec):
    return any(p.ann and ('T9' in p.ann or 'Missing9' in p.ann) for p in spec)


_fn_cache = {}


def plain_function(spec, name='f', register=False, globs=None, cache=True):
    """def name(<spec>): return {'__fn__': name, **locals}"""
    key = (spec, name)
    if cache and globs is None and not register and key in _fn_cache:
        return _fn_cache[key]
    src = 'def %s(%s):\n    %s\n' % (name, universe.spec_text(spec), body_return_locals(spec, name))
    if needs_future(spec):
        # annotations spelled with T9 / Missing9: postponed ones that cannot be evaluated
        import __future__
        g = load(src, dict(globs or {}, T9=T9), register=register, flags=__future__.annotations.compiler_flag)
    else:
        g = load(src, globs, register=register)
    fn = g[name]
    if cache and globs is None and not register:
        if len(_fn_cache) > 50000:
            _fn_cache.clear()
        _fn_cache[key] = fn
    return fn


_sig_cache = {}


def sig_of(spec, name='f', future=None):
    """Upgraded signature of a real function with this spec, sources pointing at that
    function (through the public retrieval entry point).  future: compiled with
    `from __future__ import annotations` in globals that bind T9 (annotations such as
    T9[int], T9.only_in_stubs or Missing9 then cannot be evaluated)."""
    from sigtools import signatures
    if future is None:
        future = needs_future(spec)
    key = (spec, name, future)
    s = _sig_cache.get(key)
    if s is None:
        if len(_sig_cache) > 50000:
            _sig_cache.clear()
        s = _sig_cache[key] = signatures.signature(plain_function(spec, name))
    return s
