"""Run skeleton shared by every check: statistics, failure buckets, known findings,
replay files, evidence, exit codes, 16-way sharding and the Hypothesis drivers."""
import collections
import hashlib
import json
import multiprocessing
import os
import re
import sys
import time
import traceback

from vlib import env

NPROC = int(os.environ.get('VERIF_NPROC', '16'))
MAX_SAMPLES_PER_CLASS = 2
MAX_FAIL_KEEP = 3


def jsonable(x):
    if isinstance(x, dict):
        return {str(k): jsonable(v) for k, v in x.items()}
    if isinstance(x, (list, tuple, set, frozenset)):
        xs = list(x)
        if isinstance(x, (set, frozenset)):
            xs = sorted(xs, key=repr)
        return [jsonable(v) for v in xs]
    if isinstance(x, (str, int, float, bool)) or x is None:
        return x
    return repr(x)


def stable_hash(x):
    return int(hashlib.blake2b(json.dumps(jsonable(x), sort_keys=True).encode(), digest_size=8).hexdigest(), 16)


class Stats(object):
    """What a (shard of a) run covered.  Mergeable."""

    def __init__(self):
        self.evaluations = 0
        self.classes = collections.Counter()
        self.nontrivial = set()          # hashes of distinct non-trivial case keys
        self.nontrivial_enum = 0         # non-trivial cases of duplicate-free enumerations
        self.samples = {}                # class -> [case, ...]
        self.failures = {}               # bucket -> {'case','detail','count','size'}
        self.exhaustive = {}             # sub-domain -> size
        self.notes = []
        self.extra = collections.Counter()

    def case(self, n=1):
        self.evaluations += n

    def cls(self, name, n=1):
        self.classes[name] += n

    def note(self, text):
        if text not in self.notes:
            self.notes.append(text)

    def nontriv(self, key):
        self.nontrivial.add(stable_hash(key))

    def nontriv_enum(self, n=1):
        self.nontrivial_enum += n

    def sample(self, cls, case):
        lst = self.samples.setdefault(cls, [])
        if len(lst) < MAX_SAMPLES_PER_CLASS:
            lst.append(jsonable(case))

    def fail(self, bucket, case, detail):
        case = jsonable(case)
        size = len(json.dumps(case))
        cur = self.failures.get(bucket)
        if cur is None:
            self.failures[bucket] = {'case': case, 'detail': str(detail)[:2000], 'count': 1, 'size': size}
        else:
            cur['count'] += 1
            if size < cur['size']:
                cur.update(case=case, detail=str(detail)[:2000], size=size)

    def merge(self, other):
        self.evaluations += other.evaluations
        self.classes.update(other.classes)
        self.nontrivial |= other.nontrivial
        self.nontrivial_enum += other.nontrivial_enum
        for c, lst in other.samples.items():
            mine = self.samples.setdefault(c, [])
            for s in lst:
                if len(mine) < MAX_SAMPLES_PER_CLASS:
                    mine.append(s)
        for b, f in other.failures.items():
            cur = self.failures.get(b)
            if cur is None:
                self.failures[b] = dict(f)
            else:
                cur['count'] += f['count']
                if f['size'] < cur['size']:
                    cur.update(case=f['case'], detail=f['detail'], size=f['size'])
        for k, v in other.exhaustive.items():
            self.exhaustive[k] = self.exhaustive.get(k, 0) + v
        self.notes.extend(n for n in other.notes if n not in self.notes)
        self.extra.update(other.extra)
        return self


class HarnessError(Exception):
    pass


class Ctx(object):
    def __init__(self, prop, tier, seed):
        self.prop = prop
        self.tier = tier
        self.seed = seed
        self.quick = tier == 'quick'
        self.t0 = time.time()

    def pick(self, quick, thorough):
        return quick if self.quick else thorough

    def pmap(self, func, items, chunksize=1):
        """Run func(item) -> Stats over items on NPROC processes, merge the results."""
        items = list(items)
        total = Stats()
        if NPROC <= 1 or len(items) <= 1:
            for it in items:
                st = _guard(func)(it)
                if isinstance(st, _WorkerCrash):
                    raise HarnessError('worker crashed:\n' + st.tb)
                total.merge(st)
            return total
        ctx = multiprocessing.get_context('fork')
        with ctx.Pool(min(NPROC, len(items))) as pool:
            for st in pool.imap_unordered(_guard(func), items, chunksize):
                if isinstance(st, _WorkerCrash):
                    raise HarnessError('worker crashed:\n' + st.tb)
                total.merge(st)
        return total

    def shard_seeds(self, n=None):
        n = n or NPROC
        return [self.seed * 1000 + i for i in range(n)]

    def stride(self, items, fraction):
        """VERIF_SEED-keyed stride sample of an enumeration (quick tier)."""
        items = list(items)
        if fraction >= 1:
            return items
        step = max(1, int(round(1 / fraction)))
        # a prime step: flattened product spaces (index = i * n + j) are then sampled evenly in both coordinates
        while step > 3 and any(step % d == 0 for d in range(2, int(step ** 0.5) + 1)):
            step += 1
        off = self.seed % step
        return items[off::step]


class _WorkerCrash(object):
    def __init__(self, tb):
        self.tb = tb


PROP = None     # the property being checked (set by main, inherited by the forked workers)


def library_frame(exc):
    """The innermost traceback frame that lies inside the library under test ('file.py:function'), or None when the
    exception never passed through it (then it is the harness's own)."""
    root = os.path.join(env.REPO_ROOT, 'sigtools') + os.sep
    hit = None
    tb = exc.__traceback__
    while tb is not None:
        fn = os.path.abspath(tb.tb_frame.f_code.co_filename)
        if fn.startswith(root) and (os.sep + 'tests' + os.sep) not in fn:
            hit = '%s:%s' % (os.path.basename(fn), tb.tb_frame.f_code.co_name)
        tb = tb.tb_next
    return hit


def _pickled(x):
    import base64, pickle
    return base64.b64encode(pickle.dumps(x)).decode('ascii')


def _unpickled(x):
    import base64, pickle
    return pickle.loads(base64.b64decode(x))


def escaped(stats, exc, kind, func, arg):
    """An exception came out of the library at a point where the check (standing for a caller who relies on the property)
    catches everything the property lets the library raise there.  On the unchanged tree this never happens (the check
    would end as a harness error); on a changed tree it is behaviour the property does not allow, recorded as a failure
    whose replay re-runs the same shard or case.  Exceptions that never passed through the library stay harness errors."""
    where = library_frame(exc)
    if where is None:
        return False
    tb = ''.join(traceback.format_exception(type(exc), exc, exc.__traceback__))
    stats.fail('%s/escaped/%s@%s' % (PROP, type(exc).__name__, where),
               {'kind': kind, 'function': '%s:%s' % (func.__module__, func.__name__), 'pickled': _pickled(arg)},
               '%s: %s escaped from the library into the check\n%s' % (type(exc).__name__, str(exc)[:300], tb[-1400:]))
    return True


class _guard(object):
    def __init__(self, func):
        self.func = func

    def __call__(self, item):
        try:
            return self.func(item)
        except Exception as e:
            st = Stats()
            if escaped(st, e, 'escaped-from-shard', self.func, item):
                return st
            return _WorkerCrash(traceback.format_exc())
        except BaseException:
            return _WorkerCrash(traceback.format_exc())


def replay_escaped(case, stats):
    import importlib
    mod, name = case['function'].split(':')
    func = getattr(importlib.import_module(mod), name)
    arg = _unpickled(case['pickled'])
    if case['kind'] == 'escaped-from-shard':
        st = _guard(func)(arg)
        if isinstance(st, _WorkerCrash):
            raise HarnessError('worker crashed:\n' + st.tb)
        stats.merge(st)
    else:
        run_case(func, arg, stats)


class BudgetExceeded(BaseException):
    pass


class _GiveUp(Exception):
    pass


class time_budget(object):
    """Abandon what runs inside after `seconds` (main thread of the worker process only).  Budgets nest: leaving an
    inner one re-arms what is left of the outer one.  An abandoned case is *inconclusive*, never a verdict: the budgets
    are orders of magnitude above what a case takes on the unchanged tree and only keep a check from hanging (or from
    eating the machine's memory) when a changed library loops forever."""

    def __init__(self, seconds):
        self.seconds = seconds
        self.armed = False

    def __enter__(self):
        import signal
        import threading
        if threading.current_thread() is threading.main_thread():
            def onalarm(signum, frame):
                raise BudgetExceeded()
            self.t0 = time.time()
            self.outer = signal.getitimer(signal.ITIMER_REAL)[0]
            self.old = signal.signal(signal.SIGALRM, onalarm)
            signal.setitimer(signal.ITIMER_REAL, self.seconds if not self.outer else min(self.seconds, self.outer))
            self.armed = True
        return self

    def __exit__(self, *exc):
        if self.armed:
            import signal
            signal.setitimer(signal.ITIMER_REAL, 0)
            signal.signal(signal.SIGALRM, self.old)
            if self.outer:
                signal.setitimer(signal.ITIMER_REAL, max(0.05, self.outer - (time.time() - self.t0)))
        return False


CASE_BUDGET = 20        # seconds; cases take milliseconds to a few hundred milliseconds
MAX_ABANDONED = 3       # per search: after that many abandoned cases the rest of the search is given up (recorded in the evidence)


def abandoned(stats, what):
    stats.cls('inconclusive: %s abandoned after its time budget' % what)
    stats.extra['abandoned_cases'] += 1
    stats.note('%s abandoned after its time budget (inconclusive, not a verdict)' % what)


def run_case(check, case, stats):
    try:
        with time_budget(CASE_BUDGET):
            check(case, stats)
    except BudgetExceeded:
        abandoned(stats, 'a generated case')
    except Exception as e:
        if not escaped(stats, e, 'escaped-from-case', check, case):
            raise


# ---------------------------------------------------------------------------------------
# Hypothesis drivers

def hyp_settings(max_examples, shrink=False):
    from hypothesis import settings, HealthCheck, Phase
    phases = [Phase.generate] + ([Phase.shrink] if shrink else [])
    return settings(max_examples=max_examples, database=None, deadline=None, derandomize=False,
                    report_multiple_bugs=False, phases=phases, print_blob=False,
                    suppress_health_check=[HealthCheck.too_slow, HealthCheck.data_too_large,
                                           HealthCheck.large_base_example])


def hyp_search(strategy, check, stats, max_examples, seed_value, shrink_budget=400):
    """Collect-then-shrink: run `check(case, stats)` (which records failures in stats and
    never raises for a property failure) over max_examples generated cases; then, for each
    new failure bucket, re-run with shrinking to replace its representative by a minimal
    one.  All randomness comes from Hypothesis seeded with seed_value."""
    import hypothesis
    from hypothesis import given

    before = set(stats.failures)

    @hypothesis.seed(seed_value)
    @hyp_settings(max_examples)
    @given(strategy)
    def search(case):
        n0 = stats.extra['abandoned_cases']
        run_case(check, case, stats)
        if stats.extra['abandoned_cases'] > n0 and stats.extra['abandoned_cases'] >= MAX_ABANDONED:
            raise _GiveUp()
    try:
        search()
    except _GiveUp:
        stats.note('search given up after %d abandoned cases' % stats.extra['abandoned_cases'])

    for bucket in [b for b in stats.failures if b not in before]:
        best = {}

        class _Found(Exception):
            pass

        @hypothesis.seed(seed_value)
        @hyp_settings(shrink_budget, shrink=True)
        @given(strategy)
        def shrink(case):
            tmp = Stats()
            run_case(check, case, tmp)
            if bucket in tmp.failures:
                best['f'] = tmp.failures[bucket]
                raise _Found()
        try:
            shrink()
        except _Found:
            pass
        except Exception:
            pass
        f = best.get('f')
        if f is not None and f['size'] <= stats.failures[bucket]['size']:
            stats.failures[bucket].update(case=f['case'], detail=f['detail'], size=f['size'])
    return stats


# ---------------------------------------------------------------------------------------
# Known findings, replay files, evidence, exit

def load_known(prop):
    path = os.path.join(env.VERIF_ROOT, 'known_findings.json')
    try:
        with open(path) as f:
            data = json.load(f)
    except FileNotFoundError:
        return []
    return [e for e in data.get('findings', [])
            if e.get('property') == prop and e.get('status') == 'known']


def match_known(entry, bucket, failure):
    """A known-finding entry matches a failure bucket when its 'bucket' regex matches the
    bucket name in full.  Bucket names are structural (clause/operation/shape of the case),
    so a different violation of the same property lands in a different bucket."""
    pat = entry.get('bucket')
    return bool(pat) and re.fullmatch(pat, bucket) is not None


def write_replay(prop, bucket, failure):
    d = os.path.join(env.OUT_ROOT, 'replays', prop)
    os.makedirs(d, exist_ok=True)
    h = hashlib.blake2b(json.dumps(failure['case'], sort_keys=True).encode(), digest_size=4).hexdigest()
    safe = re.sub(r'[^A-Za-z0-9_.-]+', '_', bucket)[:80]
    path = os.path.join(d, '%s-%s.json' % (safe, h))
    with open(path, 'w') as f:
        json.dump({'property': prop, 'bucket': bucket, 'case': failure['case'],
                   'detail': failure['detail'], 'count_in_run': failure['count']}, f, indent=1, sort_keys=True)
    return path


def run_regressions(prop, module, stats):
    """The replay tier: every committed regress/<id>/*.json (the shrunk case of a defect that
    was fixed in the repository, or of a known finding) goes through the check's own replay
    entry into the same Stats, so a returning defect lands in its bucket like any other
    failure and a known finding is matched by the known-findings file, not by this list."""
    d = os.path.join(env.VERIF_ROOT, 'regress', prop)
    if not os.path.isdir(d):
        return
    n = 0
    for name in sorted(os.listdir(d)):
        if not name.endswith('.json'):
            continue
        with open(os.path.join(d, name)) as f:
            data = json.load(f)
        run_case(module.replay, data['case'], stats)
        n += 1
    stats.extra['regress_replayed'] = n


def validate_evidence(ev):
    for k in ('property_id', 'tier', 'seed', 'level', 'coverage', 'wall_s'):
        if k not in ev:
            raise HarnessError('evidence lacks %s' % k)
    cov = ev['coverage']
    if ev['level'] in ('exploration', 'fault_enumeration'):
        for k in ('evaluations', 'distinct_nontrivial', 'rule', 'samples'):
            if k not in cov:
                raise HarnessError('evidence coverage lacks %s' % k)
        if cov['evaluations'] < 1 or cov['distinct_nontrivial'] < 2 or not cov['samples']:
            raise HarnessError('evidence coverage is vacuous: %r' % {k: cov[k] for k in ('evaluations', 'distinct_nontrivial')})


def finish(ctx, module, stats, sigtools_file):
    """Turn a merged Stats into evidence + output lines + exit code."""
    prop = ctx.prop
    known = load_known(prop)
    violations = []
    known_hit = collections.OrderedDict()
    for bucket in sorted(stats.failures):
        f = stats.failures[bucket]
        entry = next((e for e in known if match_known(e, bucket, f)), None)
        if entry is not None:
            known_hit.setdefault(entry['id'], [entry, 0])[1] += f['count']
        else:
            violations.append((bucket, f))
    for fid, (entry, n) in known_hit.items():
        print('KNOWN-FINDING: property=%s %s [%s; %d failing cases this run]' % (prop, entry['what'], fid, n))
    out_lines = []
    for bucket, f in violations:
        path = write_replay(prop, bucket, f)
        out_lines.append('VIOLATION property=%s replay=%s' % (prop, path))
        print('VIOLATION property=%s replay=%s' % (prop, path))
        print('  bucket=%s count=%d' % (bucket, f['count']))
        print('  detail=%s' % f['detail'][:600])
    samples = []
    for c in sorted(stats.samples):
        for s in stats.samples[c]:
            samples.append({'class': c, 'case': s})
    distinct = len(stats.nontrivial) + stats.nontrivial_enum
    ev = {
        'property_id': prop,
        'tier': ctx.tier,
        'seed': ctx.seed,
        'level': module.LEVEL,
        'coverage': {
            'evaluations': stats.evaluations,
            'distinct_nontrivial': distinct,
            'rule': module.RULE,
            'samples': samples[:40],
            'classes': dict(sorted(stats.classes.items())),
            'exhaustive': bool(stats.exhaustive) and not ctx.quick,
            'exhaustive_subdomains': dict(stats.exhaustive) if not ctx.quick else {},
            'sampled_subdomains': dict(stats.exhaustive) if ctx.quick else {},
            'excluded_known': {fid: n for fid, (e, n) in known_hit.items()},
            'failure_buckets': {b: f['count'] for b, f in stats.failures.items()},
            'notes': stats.notes,
            'extra': dict(stats.extra),
        },
        'assumptions': list(getattr(module, 'ASSUMPTIONS', [])) + [
            'sigtools imported from %s' % sigtools_file,
            'CPython binding model (vlib/cpbind.py) validated against real defs in this run',
        ],
        'wall_s': round(time.time() - ctx.t0, 2),
        'violations': len(violations),
    }
    validate_evidence(ev)
    os.makedirs(os.path.join(env.OUT_ROOT, 'evidence'), exist_ok=True)
    with open(os.path.join(env.OUT_ROOT, 'evidence', prop + '.json'), 'w') as f:
        json.dump(ev, f, indent=1, sort_keys=True)
    print('%s tier=%s seed=%d evaluations=%d distinct_nontrivial=%d buckets=%d violations=%d wall=%.1fs' % (
        prop, ctx.tier, ctx.seed, stats.evaluations, distinct, len(stats.failures), len(violations), ev['wall_s']))
    return env.EXIT_VIOLATION if violations else env.EXIT_OK


def main(argv):
    import argparse
    ap = argparse.ArgumentParser()
    ap.add_argument('prop')
    ap.add_argument('--tier', default=os.environ.get('VERIF_TIER') or 'quick', choices=['quick', 'thorough'])
    ap.add_argument('--replay')
    a = ap.parse_args(argv)
    prop = a.prop.upper()
    try:
        sigtools_file = env.bootstrap()
        import importlib
        module = importlib.import_module('checks.' + prop.lower())
        ctx = Ctx(prop, a.tier, env.seed())
        global PROP
        PROP = prop
        if a.replay:
            with open(a.replay) as f:
                data = json.load(f)
            st = Stats()
            if str(data['case'].get('kind', '')).startswith('escaped-from-'):
                replay_escaped(data['case'], st)
            else:
                module.replay(data['case'], st)
            if st.failures:
                for b, f in st.failures.items():
                    print('VIOLATION property=%s replay=%s' % (prop, os.path.abspath(a.replay)))
                    print('  bucket=%s' % b)
                    print('  detail=%s' % f['detail'][:2000])
                return env.EXIT_VIOLATION
            print('replay: property held on this case')
            return env.EXIT_OK
        stats = module.run(ctx)
        run_regressions(prop, module, stats)
        return finish(ctx, module, stats, sigtools_file)
    except HarnessError as e:
        print('HARNESS-ERROR %s: %s' % (prop, e), file=sys.stderr)
        return env.EXIT_HARNESS
    except Exception:
        traceback.print_exc()
        print('HARNESS-ERROR %s: unexpected exception in the harness (not a property verdict)' % prop, file=sys.stderr)
        return env.EXIT_HARNESS
