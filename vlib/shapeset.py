"""Sets of call shapes as bitmasks over a fixed shape list (fast set algebra for the
exhaustive enumerations)."""
from vlib import cpbind


class ShapeSpace(object):
    def __init__(self, names, maxpos, maxkw=None):
        self.names = tuple(names)
        self.maxpos = maxpos
        self.shapes = cpbind.shapes(self.names, maxpos, maxkw)
        self.n = len(self.shapes)
        self.full = (1 << self.n) - 1
        self.allpos = self.mask(lambda npos, kws: not kws)
        self.allkw = self.mask(lambda npos, kws: npos == 0)
        self._acc = {}
        self._sub = {}
        self._by_kw = {}
        for i, (npos, kws) in enumerate(self.shapes):
            self._by_kw.setdefault(frozenset(kws), []).append(i)

    def mask(self, pred):
        m = 0
        for i, (npos, kws) in enumerate(self.shapes):
            if pred(npos, kws):
                m |= 1 << i
        return m

    def acc(self, view):
        """Bitmask of the shapes a def with this parameter list accepts."""
        m = self._acc.get(view)
        if m is None:
            if len(self._acc) > 300000:
                self._acc.clear()
            b = cpbind.binder(view)
            m = 0
            for i, (npos, kws) in enumerate(self.shapes):
                if b.accepts(npos, kws):
                    m |= 1 << i
            self._acc[view] = m
        return m

    def sub(self, allowed):
        """Shapes whose keywords all lie in `allowed`."""
        allowed = frozenset(allowed) & frozenset(self.names)
        m = self._sub.get(allowed)
        if m is None:
            m = 0
            for ks, idx in self._by_kw.items():
                if ks <= allowed:
                    for i in idx:
                        m |= 1 << i
            self._sub[allowed] = m
        return m

    def noncolliding(self, result_view, input_views):
        """Shapes that are non-colliding for this result and these inputs."""
        alln = set()
        for v in input_views:
            alln.update(n for n, k, d in v)
        allowed = set(cpbind.kwpassable(result_view)) | (set(self.names) - alln)
        return self.sub(allowed)

    def decode(self, m, limit=None):
        out = []
        i = 0
        while m:
            if m & 1:
                out.append(self.shapes[i])
                if limit and len(out) >= limit:
                    break
            m >>= 1
            i += 1
        return out

    def first(self, m):
        d = self.decode(m, 1)
        return d[0] if d else None

    def count(self, m):
        return bin(m).count('1')
