"""CPython argument binding on call shapes, as an explicit model.

accepts(view, npos, kws): would a `def` with this parameter list accept a call with `npos`
positional arguments and the keyword names `kws`?

This is deliberately NOT inspect.Signature.bind: on CPython 3.12.1 `bind` rejects a keyword
that spells a positional-only parameter even when **kwargs would absorb it (gh-87106).
The model is validated against real `def`s at the start of every run (selfcheck()).

A *view* is a tuple of (name, kind, has_default) -- see universe.sig_view / spec_view.
"""
import itertools

PO, POK, VP, KWO, VK = 0, 1, 2, 3, 4


class Binder(object):
    __slots__ = ('view', 'pos', 'posreq', 'va', 'vk', 'kwnames', 'posidx', 'kworeq', 'vaname', 'vkname')

    def __init__(self, view):
        self.view = view
        self.pos = [n for n, k, d in view if k in (PO, POK)]
        self.posreq = [not d for n, k, d in view if k in (PO, POK)]
        self.va = any(k == VP for n, k, d in view)
        self.vk = any(k == VK for n, k, d in view)
        self.vaname = next((n for n, k, d in view if k == VP), None)
        self.vkname = next((n for n, k, d in view if k == VK), None)
        self.kwnames = frozenset(n for n, k, d in view if k in (POK, KWO))
        self.posidx = {n: i for i, (n, k, d) in enumerate(
            [(n, k, d) for n, k, d in view if k in (PO, POK)]) if k == POK}
        self.kworeq = [(n, not d) for n, k, d in view if k == KWO]

    def accepts(self, npos, kws):
        np_ = len(self.pos)
        if npos > np_:
            if not self.va:
                return False
            n = np_
        else:
            n = npos
        kwn = self.kwnames
        for k in kws:
            if k in kwn:
                i = self.posidx.get(k)
                if i is not None and i < n:
                    return False
            elif not self.vk:
                return False
        for i in range(n, np_):
            if self.posreq[i]:
                name = self.pos[i]
                if not (name in kwn and name in kws):
                    return False
        for name, req in self.kworeq:
            if req and name not in kws:
                return False
        return True

    def bind(self, args, kwargs, defaults=None):
        """Reference binding with values: returns {param name: value} exactly as the
        locals of a real function would be, or raises TypeError.  `defaults` maps
        parameter names to default values (needed only for the returned mapping)."""
        if not self.accepts(len(args), tuple(kwargs)):
            raise TypeError('binding rejected')
        defaults = defaults or {}
        out = {}
        np_ = len(self.pos)
        for i, name in enumerate(self.pos):
            if i < len(args):
                out[name] = args[i]
        if self.va:
            out[self.vaname] = tuple(args[np_:])
        extra = {}
        for k, v in kwargs.items():
            if k in self.kwnames:
                out[k] = v
            else:
                extra[k] = v
        if self.vk:
            out[self.vkname] = extra
        for n, k, d in self.view:
            if k in (PO, POK, KWO) and n not in out:
                out[n] = defaults[n]
        return out


_cache = {}


def binder(view):
    b = _cache.get(view)
    if b is None:
        if len(_cache) > 200000:
            _cache.clear()
        b = _cache[view] = Binder(view)
    return b


def accepts(view, npos, kws):
    return binder(view).accepts(npos, kws)


def sig_accepts(sig, npos, kws):
    from vlib.universe import sig_view
    return binder(sig_view(sig)).accepts(npos, kws)


def shapes(names, maxpos, maxkw=None):
    """All (npos, kwtuple) with npos in 0..maxpos and kwtuple a subset of names."""
    names = list(names)
    if maxkw is None:
        maxkw = len(names)
    out = []
    for npos in range(maxpos + 1):
        for r in range(min(maxkw, len(names)) + 1):
            for ks in itertools.combinations(names, r):
                out.append((npos, ks))
    return out


def names_of(view):
    return [n for n, k, d in view]


def kwpassable(view):
    return frozenset(n for n, k, d in view if k in (POK, KWO))


def poscap(view):
    return sum(1 for n, k, d in view if k in (PO, POK))


def noncolliding(result_view, input_views, kws):
    """Every keyword is a keyword-passable parameter of the result, or is not a parameter
    name of any input."""
    kp = kwpassable(result_view)
    alln = set()
    for v in input_views:
        alln.update(n for n, k, d in v)
    return all((k in kp) or (k not in alln) for k in kws)


def roles(view):
    r = {}
    i = 0
    for n, k, d in view:
        if k in (PO, POK):
            r[n] = (k, i)
            i += 1
        else:
            r[n] = (k, None)
    return r


def role_consistent(views):
    """Every name shared between inputs denotes the same kind of parameter at the same
    positional index in each of them."""
    seen = {}
    for v in views:
        for n, r in roles(v).items():
            if n in seen and seen[n] != r:
                return False
            seen[n] = r
    return True


def name_aligned(views):
    """C09: positional parameters carry the same name position by position and shared
    names keep their role."""
    if not role_consistent(views):
        return False
    poss = [[n for n, k, d in v if k in (PO, POK)] for v in views]
    for col in itertools.zip_longest(*poss):
        got = set(x for x in col if x is not None)
        if len(got) > 1:
            return False
    return True


def real_accepts(func, npos, kws):
    try:
        func(*([0] * npos), **{k: 0 for k in kws})
        return True
    except TypeError:
        return False


def selfcheck(specs, shape_names=('a', 'b', 'c', 'q'), maxpos=4):
    """Model vs real defs.  Returns (comparisons, disagreements list)."""
    from vlib import realfn, universe
    bad = []
    n = 0
    for spec in specs:
        fn = realfn.plain_function(spec)
        b = binder(universe.spec_view(spec))
        names = sorted(set(universe.spec_names(spec)) | set(shape_names))[:5]
        for npos, kws in shapes(names, maxpos, 3):
            n += 1
            if b.accepts(npos, kws) != real_accepts(fn, npos, kws):
                bad.append((universe.spec_text(spec), npos, kws))
    return n, bad
