"""Shared-object scenarios for C16 (fault injection), C17 (schedules) and C18 (histories):
callables built from generated source (registered with linecache) that exercise every retrieval
path which temporarily touches shared state: functools.wraps chains, __signature__ carriers,
forger-decorated objects (attribute and emulate=True wrapper), modifiers-wrapped callables,
wrappers.decorator / wrapper_decorator objects, user forgers, Python-level attribute getters."""
from vlib import realfn

PRELUDE = '''\
import functools, inspect
import sigtools
from sigtools import specifiers, modifiers, wrappers, signatures
'''

INNERS = ['x, y, *, z', 'x, y=2', 'x, /, y, *args, z=3, **kwargs', '*, z', 'x', 'x, y, z=3, *, k=4']
OUTERS = ['a, ', '', 'a, b=2, ']


def _mk(name, body, targets, inner='x, y, *, z', outer='a, '):
    return {'name': name, 'body': body, 'targets': targets, 'inner': inner, 'outer': outer}


TEMPLATES = [
    _mk('wraps1', '''
def inner({inner}): return 'inner'
@functools.wraps(inner)
def w1({outer}*args, **kwargs): return inner(1, *args, **kwargs)
''', ['w1']),
    _mk('wraps2', '''
def inner({inner}): return 'inner'
@functools.wraps(inner)
def w1({outer}*args, **kwargs): return inner(1, *args, **kwargs)
@functools.wraps(w1)
def w2(*args, **kwargs): return w1(*args, **kwargs)
''', ['w2', 'w1']),
    _mk('wraps3', '''
def inner({inner}): return 'inner'
@functools.wraps(inner)
def w1({outer}*args, **kwargs): return inner(1, *args, **kwargs)
@functools.wraps(w1)
def w2(*args, **kwargs): return w1(*args, **kwargs)
@functools.wraps(w2)
def w3(*args, **kwargs): return w2(*args, **kwargs)
''', ['w3']),
    _mk('sigattr', '''
def inner({inner}): return 'inner'
def w1({outer}*args, **kwargs): return inner(1, *args, **kwargs)
w1.__signature__ = inspect.signature(inner)
''', ['w1']),
    _mk('forger_attr', '''
def inner({inner}): return 'inner'
@specifiers.forwards_to_function(inner, 1)
def w1({outer}*args, **kwargs): return inner(1, *args, **kwargs)
''', ['w1']),
    _mk('forger_emulate', '''
def inner({inner}): return 'inner'
@specifiers.forwards_to_function(inner, 1, emulate=True)
def w1({outer}*args, **kwargs): return inner(1, *args, **kwargs)
''', ['w1']),
    _mk('forger_wraps', '''
def inner({inner}): return 'inner'
def other(p, q): return 'other'
@functools.wraps(other)
@specifiers.forwards_to_function(inner, 1)
def w1({outer}*args, **kwargs): return inner(1, *args, **kwargs)
''', ['w1']),
    _mk('forger_method', '''
class K(object):
    def inner(self, {inner}): return 'inner'
    @specifiers.forwards_to_method('inner', 1)
    def m(self, {outer}*args, **kwargs): return self.inner(1, *args, **kwargs)
    @specifiers.forwards_to_method('inner', 1, emulate=True)
    def me(self, {outer}*args, **kwargs): return self.inner(1, *args, **kwargs)
obj = K()
''', ['obj.m', 'K.m', 'obj.me', 'K.me']),
    _mk('forger_method_ivar', '''
def inner({inner}): return 'inner'
def other(p, q=2): return 'other'
class K(object):
    def __init__(self, target):
        self.target = target
    @specifiers.forwards_to_method('target', emulate=True)
    def me(self, {outer}*args, **kwargs): return self.target(*args, **kwargs)
    @specifiers.forwards_to_method('target')
    def m(self, {outer}*args, **kwargs): return self.target(*args, **kwargs)
obj = K(inner)
obj2 = K(other)
''', ['obj.me', 'obj2.me', 'obj.m', 'obj2.m']),
    _mk('forger_super', '''
class Base(object):
    def m(self, {inner}): return 'inner'
class K(Base):
    @specifiers.forwards_to_super(1)
    def m(self, {outer}*args, **kwargs): return super().m(1, *args, **kwargs)
obj = K()
''', ['obj.m', 'K.m']),
    _mk('modifiers_fn', '''
def inner({inner}): return 'inner'
@modifiers.kwoargs('a')
def w1(a, *args, **kwargs): return inner(1, *args, **kwargs)
''', ['w1'], outer='a, '),
    _mk('modifiers_wraps', '''
def inner({inner}): return 'inner'
@functools.wraps(inner)
@modifiers.kwoargs('a')
def w1(a, *args, **kwargs): return inner(1, *args, **kwargs)
''', ['w1'], outer='a, '),
    _mk('modifiers_method', '''
class K(object):
    def inner(self, {inner}): return 'inner'
    @modifiers.kwoargs('a')
    def m(self, a, *args, **kwargs): return self.inner(1, *args, **kwargs)
obj = K()
''', ['obj.m', 'K.m'], outer='a, '),
    _mk('decorator_fn', '''
@wrappers.decorator
def deco(func, {outer}*args, dp=False, **kwargs): return func(*args, **kwargs)
@deco
def w1({inner}): return 'inner'
''', ['w1']),
    _mk('decorator_method', '''
@wrappers.decorator
def deco(func, {outer}*args, dp=False, **kwargs): return func(*args, **kwargs)
class K(object):
    @deco
    def m(this, {inner}): return 'inner'
obj = K()
''', ['obj.m', 'K.m']),
    _mk('wrapper_decorator', '''
@wrappers.wrapper_decorator
def deco(func, {outer}*args, dp=False, **kwargs): return func(*args, **kwargs)
@deco
def w1({inner}): return 'inner'
''', ['w1']),
    _mk('user_forger', '''
def inner({inner}): return 'inner'
@specifiers.forger_function
@modifiers.kwoargs('obj')
def my_forger(obj, extra=None): return signatures.embed(signatures.signature(obj), signatures.signature(inner))
@my_forger()
def w1({outer}*args, **kwargs): return inner(*args, **kwargs)
''', ['w1']),
    _mk('getattr_obj', '''
def inner({inner}): return 'inner'
class C(object):
    def __init__(self):
        self.__wrapped__ = inner
        self.__name__ = 'c'
    def __getattr__(self, name):
        raise AttributeError(name)
    def __call__(self, {outer}*args, **kwargs): return inner(1, *args, **kwargs)
w1 = C()
''', ['w1']),
    _mk('property_sig', '''
def inner({inner}): return 'inner'
class C(object):
    @property
    def __signature__(self):
        return signatures.signature(inner)
    def __call__(self, {outer}*args, **kwargs): return inner(1, *args, **kwargs)
w1 = C()
''', ['w1']),
    _mk('combination', '''
def f1(arg, {inner}): return arg
def f2(arg, *args, **kwargs): return f1(arg, *args, **kwargs)
w1 = wrappers.Combination(f1, f2)
''', ['w1']),
    _mk('sigattr_upgraded', '''
def inner({inner}): return 'inner'
def other(p, q=2): return 'other'
def w1({outer}*args, **kwargs): return inner(1, *args, **kwargs)
w1.__signature__ = signatures.signature(other).replace(sources={{}})
@functools.wraps(w1)
def w2(*args, **kwargs): return w1(*args, **kwargs)
''', ['w1', 'w2']),
    _mk('forger_implicit_classmethod', '''
def inner({inner}): return 'inner'
class K(object):
    @specifiers.forwards_to_function(inner, 1, emulate=True)
    def __class_getitem__(cls, {outer}*args, **kwargs): return inner(1, *args, **kwargs)
    @specifiers.forwards_to_function(inner, 1, emulate=True)
    def __init_subclass__(cls, {outer}*args, **kwargs): return None
''', ['K.__class_getitem__']),
    _mk('wraps_factory', '''
def inner({inner}): return 'inner'
def factory(t):
    @functools.wraps(inner)
    def w({outer}*args, timeout=t, **kwargs): return inner(1, *args, **kwargs)
    return w
w1 = factory(1)
w2 = factory(30)
''', ['w1', 'w2']),
    _mk('partial_modifiers', '''
def inner({inner}): return 'inner'
@modifiers.kwoargs('c')
def w0(a, b=2, c=3, **kwargs): return inner(1, a, **kwargs)
w1 = functools.partial(w0, 1, c=5, colour='red')
w2 = functools.partial(w0, b=4)
''', ['w1', 'w2', 'w0'], outer='a, '),
    _mk('as_forged_class', '''
class K(object):
    __signature__ = specifiers.as_forged
    def __init__(self, p=1, *rest): pass
    def inner(self, {inner}): return 'inner'
    @specifiers.forwards_to_method('inner', 1)
    def __call__(self, {outer}*args, **kwargs): return self.inner(1, *args, **kwargs)
obj = K()
''', ['obj', 'K']),
    _mk('partial_wraps', '''
def inner({inner}): return 'inner'
@functools.wraps(inner)
def w0(fn, {outer}*args, **kwargs): return fn(1, *args, **kwargs)
w1 = functools.partial(w0, inner)
''', ['w1', 'w0']),
]


def instances(inners=None, outers=None):
    """(template, inner, outer) combinations that make sense."""
    out = []
    for t in TEMPLATES:
        for inner in (inners or INNERS):
            fixed_outer = t['name'].startswith('modifiers') or t['name'] == 'partial_modifiers'
            for outer in ([t['outer']] if fixed_outer else (outers or OUTERS)):
                out.append((t['name'], inner, outer))
    return out


_by_name = {t['name']: t for t in TEMPLATES}


def build(name, inner, outer):
    """Compile a fresh instance of the scenario; returns (globals, {target expr: object getter})."""
    t = _by_name[name]
    src = PRELUDE + t['body'].format(inner=inner, outer=outer)
    g = realfn.load(src)
    return g, list(t['targets']), src


def resolve(g, expr):
    o = g[expr.split('.')[0]]
    for a in expr.split('.')[1:]:
        o = getattr(o, a)
    return o


def roots(g):
    """Everything defined by the scenario that could be affected."""
    out = []
    for k, v in g.items():
        if k.startswith('__') or k in ('functools', 'inspect', 'sigtools', 'specifiers', 'modifiers', 'wrappers', 'signatures'):
            continue
        out.append(v)
        if isinstance(v, type):
            for a, m in vars(v).items():
                if not a.startswith('__') or a in ('__call__', '__signature__'):
                    out.append(m)
    return out
