#!/usr/bin/env python3
"""Store a verified seeded change under /verif/seeded/<ID>-<mN>/.
   tools/seed_store.py <ID> <mN> <detected: e.g. C05:quick,C06:quick | none> <needs text> [--head-patch FILE] [--note TEXT]"""
import json, os, shutil, sys
pid, m, detected, needs = sys.argv[1:5]
rest = sys.argv[5:]
head_patch = note = None
srcdir = None
base = '5b8bfa1'
name = None
while rest:
    if rest[0] == '--src':
        srcdir = rest[1]; rest = rest[2:]; continue
    if rest[0] == '--base':
        base = rest[1]; rest = rest[2:]; continue
    if rest[0] == '--name':
        name = rest[1]; rest = rest[2:]; continue
    if rest[0] == '--head-patch':
        head_patch = rest[1]; rest = rest[2:]
    elif rest[0] == '--note':
        note = rest[1]; rest = rest[2:]
    else:
        raise SystemExit('bad args %r' % rest)
src = srcdir or '/tmp/seed/%s/out/%s' % (pid, m)
dst = '/verif/seeded/%s-%s' % (pid, name or m)
os.makedirs(dst, exist_ok=True)
for f in ('patch.diff', 'demo.py', 'notes.md'):
    shutil.copy(os.path.join(src, f), os.path.join(dst, f))
meta = {
    'property': pid,
    'breaks': json.loads([l for l in open('/verif/properties.jsonl') if json.loads(l)['id'] == pid][0])['title'],
    'needs_to_manifest': needs,
    'base_commit': base,
    'written_against': 'epsy/sigtools at /repo commit %s by a sub-agent' % base + ' that saw only the property text and its own scratch worktree',
    'verified': ['scratch copy of %s: demo.py exits 0 without the patch and 1 with it' % base,
                 'scratch copy of %s + patch: pinned suite still 294 passed (tools/seed_verify.sh)' % base],
    'detected_by': dict(x.split(':') for x in detected.split(',')) if detected != 'none' else {},
    'ran': 'SEED_BASE=%s tools/seed_verify.sh seeded/%s-%s %s-%s <checks> (patch applied to a scratch copy of /repo HEAD, checks run with VERIF_REPO)' % (base, pid, name or m, pid, name or m),
}
if head_patch:
    shutil.copy(head_patch, os.path.join(dst, 'patch_for_head.diff'))
    meta['patch_for_head'] = 'patch.diff no longer applies to /repo HEAD (the code it touches was repaired since); patch_for_head.diff re-creates the same defect there'
if note:
    meta['note'] = note
json.dump(meta, open(os.path.join(dst, 'meta.json'), 'w'), indent=1)
print('stored', dst)
