#!/usr/bin/env python3
"""Store a verified seeded change under /verif/seeded/<ID>-<mN>/.
   tools/seed_store.py <ID> <mN> <detected: e.g. C05:quick,C06:quick | none> <needs text> [--head-patch FILE] [--note TEXT]"""
import json, os, shutil, sys
pid, m, detected, needs = sys.argv[1:5]
rest = sys.argv[5:]
head_patch = note = None
while rest:
    if rest[0] == '--head-patch':
        head_patch = rest[1]; rest = rest[2:]
    elif rest[0] == '--note':
        note = rest[1]; rest = rest[2:]
    else:
        raise SystemExit('bad args %r' % rest)
src = '/tmp/seed/%s/out/%s' % (pid, m)
dst = '/verif/seeded/%s-%s' % (pid, m)
os.makedirs(dst, exist_ok=True)
for f in ('patch.diff', 'demo.py', 'notes.md'):
    shutil.copy(os.path.join(src, f), os.path.join(dst, f))
meta = {
    'property': pid,
    'breaks': json.loads([l for l in open('/verif/properties.jsonl') if json.loads(l)['id'] == pid][0])['title'],
    'needs_to_manifest': needs,
    'written_against': 'epsy/sigtools at /repo commit 5b8bfa1 by a sub-agent that saw only the property text and its own scratch worktree',
    'verified': ['scratch copy of 5b8bfa1: demo.py exits 0 without the patch and 1 with it',
                 'scratch copy of 5b8bfa1 + patch: pinned suite still 294 passed (tools/seed_verify.sh)'],
    'detected_by': dict(x.split(':') for x in detected.split(',')) if detected != 'none' else {},
    'ran': 'tools/seed_verify.sh seeded/%s-%s %s-%s <checks> (patch applied to a scratch copy of /repo HEAD, checks run with VERIF_REPO)' % (pid, m, pid, m),
}
if head_patch:
    shutil.copy(head_patch, os.path.join(dst, 'patch_for_head.diff'))
    meta['patch_for_head'] = 'patch.diff no longer applies to /repo HEAD (the code it touches was repaired since); patch_for_head.diff re-creates the same defect there'
if note:
    meta['note'] = note
json.dump(meta, open(os.path.join(dst, 'meta.json'), 'w'), indent=1)
print('stored', dst)
