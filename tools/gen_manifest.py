#!/usr/bin/env python3
"""Regenerate MANIFEST.json from tools/manifest_src.py (single source of truth)."""
import json, os, sys
HERE = os.path.dirname(os.path.abspath(__file__))
sys.path.insert(0, HERE)
import manifest_src as m
ROOT = os.path.dirname(HERE)
props = [json.loads(l)['id'] for l in open(os.path.join(ROOT, 'properties.jsonl'))]
checks = []
for pid in props:
    c = m.CHECKS.get(pid)
    if not c:
        continue
    checks.append({
        'property_id': pid,
        'quick_cmd': './run %s --tier quick' % pid,
        'thorough_cmd': './run %s --tier thorough' % pid,
        'evidence_file': '/verif/evidence/%s.json' % pid,
        'replay_cmd_template': './run %s --replay {path}' % pid,
        'engine': c.get('engine', 'hypothesis+enumeration'),
        'level_claimed': {'category': c.get('category', 'exploration'), 'text': c['text'], 'design_ref': c['design_ref']},
        'level_note': c['note'],
        'technique': c['technique'],
    })
na = [{'property_id': pid, 'reason': m.NOT_APPLICABLE.get(pid, 'check not built yet in this session (work in progress); see DESIGN.md for the planned design')}
      for pid in props if pid not in m.CHECKS]
man = {
    'version': 1,
    'setup_cmd': './setup.sh',
    'hooks': m.HOOKS,
    'engines': m.ENGINES,
    'checks': checks,
    'notes': m.NOTES,
    'not_applicable': na,
}
json.dump(man, open(os.path.join(ROOT, 'MANIFEST.json'), 'w'), indent=1)
print('checks:', [c['property_id'] for c in checks], 'not_applicable:', [n['property_id'] for n in na])
