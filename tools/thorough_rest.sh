#!/bin/sh
# thorough tier of the checks named on the command line (default: those the last full run did not cover)
for c in ${*:-C05 C06 C08 C11 C17 C18 C19 C20}; do
  ./run $c --tier thorough 2>&1 | grep -E "^VIOLATION|^KNOWN|^C[0-9]+ tier|HARNESS" | cut -c1-220
done
