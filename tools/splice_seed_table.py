#!/usr/bin/env python3
"""Replace the table between the seed-table markers of DESIGN.md section 6 by the output of tools/seed_table.py.
   tools/splice_seed_table.py <sweep log>   (also writes detected_by into every seeded/<name>/meta.json)"""
import subprocess, sys
table = subprocess.check_output([sys.executable, '/verif/tools/seed_table.py', sys.argv[1], '--write']).decode()
s = open('/verif/DESIGN.md').read()
a, rest = s.split('<!-- seed-table-begin -->\n', 1)
_, b = rest.split('<!-- seed-table-end -->', 1)
open('/verif/DESIGN.md', 'w').write(a + '<!-- seed-table-begin -->\n' + table + '<!-- seed-table-end -->' + b)
print(table.strip().splitlines()[-1])
