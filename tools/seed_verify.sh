#!/bin/sh
# Verify one seeded change and run checks against it.
#   tools/seed_verify.sh <seed dir holding patch.diff demo.py notes.md> <name> [--tier T] <ID>...
# 1. on a scratch copy of the commit the seed was written against (SEED_BASE, default 5b8bfa1):
#    demo passes without the patch, fails with it, pinned suite still has 294 passed
# 2. on a scratch copy of /repo's current HEAD + patch: run the named checks (exit 1 = caught)
# Scratch copies are removed at the end.
set -u
SRC=$(readlink -f "$1"); NAME=$2; shift 2
TIER=quick
if [ "${1:-}" = "--tier" ]; then TIER=$2; shift 2; fi
BASE=${SEED_BASE:-5b8bfa1}
TMP=$(mktemp -d /tmp/seedv.XXXXXX)
trap 'rm -rf "$TMP"' EXIT
mkdir -p "$TMP/base" "$TMP/head" "$TMP/out"
git -C /repo archive "$BASE" | tar -x -C "$TMP/base"
mkdir -p "$TMP/base/out/$NAME"; cp "$SRC"/demo.py "$SRC"/patch.diff "$TMP/base/out/$NAME/"
cd "$TMP/base"
/venv/bin/python "out/$NAME/demo.py" >"$TMP/out/demo0.log" 2>&1; d0=$?
if ! patch -p1 -s < "$SRC/patch.diff"; then echo "seed=$NAME PATCH-FAILED-ON-BASE"; exit 3; fi
t=$(/venv/bin/python -m pytest -q -p no:cacheprovider --timeout=900 --continue-on-collection-errors 2>&1 | tail -1)
/venv/bin/python "out/$NAME/demo.py" >"$TMP/out/demo1.log" 2>&1; d1=$?
echo "seed=$NAME demo_without=$d0 demo_with=$d1 tests: $t"
(cd /repo && git ls-files -z | xargs -0 cp --parents -t "$TMP/head")
cd "$TMP/head"
HP="$SRC/patch.diff"; [ -f "$SRC/patch_for_head.diff" ] && HP="$SRC/patch_for_head.diff"
if ! patch -p1 -s --no-backup-if-mismatch < "$HP"; then echo "seed=$NAME PATCH-FAILED-ON-HEAD (adapt by hand)"; exit 4; fi
for ID in "$@"; do
  VERIF_REPO="$TMP/head" VERIF_OUT="$TMP/out" /verif/run "$ID" --tier "$TIER" > "$TMP/out/$ID.log" 2>&1
  rc=$?
  echo "seed=$NAME check=$ID tier=$TIER exit=$rc; first: $(grep -m1 -A2 '^VIOLATION' "$TMP/out/$ID.log" | tr '\n' ' ' | cut -c1-330)"
  if [ $rc = 2 ]; then tail -5 "$TMP/out/$ID.log"; fi
done
