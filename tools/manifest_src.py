HOOKS = {
    'guard': 'SIGTOOLS_VERIF',
    'enable': 'no hooks are needed: every observation goes through the public API, sys.settrace/sys.setprofile, weakref and gc; ./run sets SIGTOOLS_VERIF=1 for completeness and imports sigtools from /repo\'s working tree',
    'baseline_off_cmd': 'cd /repo && /venv/bin/python -m pytest -ra -q -p no:cacheprovider --timeout=900 --continue-on-collection-errors',
    'source_commits': [],
    'add_only': True,
}
ENGINES = [
    {'name': 'E1-hypothesis', 'path': 'vlib/framework.py (hyp_search)', 'serves_properties': [],
     'kind_free_text': 'Hypothesis 6.168 property-based generation (@seed(VERIF_SEED), database=None, deadline=None), collect-then-shrink per failure bucket, 16 shards with derived seeds'},
    {'name': 'E2-bounded-exhaustive', 'path': 'vlib/universe.py + vlib/shapeset.py', 'serves_properties': [],
     'kind_free_text': 'size-ordered enumeration of the small signature universe x call shapes, sharded over 16 processes; quick = VERIF_SEED-keyed stride sample, thorough = complete'},
]
NOTES = ('Single entry point ./run <ID> --tier quick|thorough [--replay FILE]; exit 0 held / 1 VIOLATION / 2 harness error. '
         'known_findings.json lists fixed and known findings; evidence/<ID>.json is rewritten on every run.')
NOT_APPLICABLE = {}
CHECKS = {
    'C01': dict(
        text='No counterexample to merge soundness among all 1.7M ordered pairs of the <=2-named universe (exhaustive, 64 call shapes each), all 1.6M triples of the <=1-named universe, 2M sampled triples and 32k Hypothesis n-tuples (n<=4, <=5 named parameters); acceptance decided by a CPython binding model re-validated against real defs in the same run.',
        design_ref='DESIGN.md 2/C01', technique='bounded-exhaustive enumeration + Hypothesis tuples vs CPython-binding oracle',
        note='Trusted: vlib/cpbind.py binding model (self-checked against real defs each run); call shapes up to 3 positionals / 4 keyword names in E2, P+2 positionals / 3 keywords in E1.'),
    'C03': dict(
        text='Exactness (iff), raise-iff-infeasible, order independence over all permutations, mask(sig,0)/composition laws and the hide_* flag clauses hold on every signature of the <=3-named universe (1 972 signatures, exhaustive in thorough: 1.7M mask calls compared on 160 call shapes) plus 48k Hypothesis cases with <=5 named parameters.',
        design_ref='DESIGN.md 2/C03', technique='bounded-exhaustive enumeration + Hypothesis vs CPython-binding oracle (iff), metamorphic permutation/composition relations',
        note='Trusted: vlib/cpbind.py (self-checked). Results compared up to keyword-only parameter order (not significant to calls or to inspect equality). Flag clause (f) uses the most lenient reading of "some choice of hidden arguments".'),
    'C09': dict(
        text='On all name-aligned ordered pairs of the <=3-named universe (exhaustive in thorough: 346k aligned of 3.9M pairs, 80 call shapes each) merge accepts exactly the non-colliding calls both inputs accept and raises IncompatibleSignatures iff no common call exists; unary/idempotence/neutral-element/round-trip laws on all 4 437 signatures; n-ary = nested on every role-consistent triple of the <=1-named universe, 3M sampled triples of the <=2-named one and 32k constructed Hypothesis tuples.',
        design_ref='DESIGN.md 2/C09', technique='bounded-exhaustive enumeration + Hypothesis vs CPython-binding oracle (set equality), algebraic-law and fold metamorphic relations',
        note='Trusted: vlib/cpbind.py (self-checked in C01/C03 runs). Results compared up to keyword-only order. merge(s,s) compared on parameters only (provenance of duplicates is C08).'),
    'C02': dict(
        text='embed agrees with an independent two-stage reference (outer binds, surplus forwarded to inner) in both directions on 220 outers x 1 305 inners x 4 use_* combinations (exhaustive in thorough, 192 shapes each), with the stated exemption counted separately; raise => shared name or infeasible; n-ary = nested on 1.5M sampled triples; bare outer returns inner unchanged; 32k Hypothesis cases with <=5 named parameters.',
        design_ref='DESIGN.md 2/C02', technique='bounded-exhaustive enumeration + Hypothesis vs reference-semantics oracle built on the CPython-binding model',
        note='Trusted: vlib/cpbind.py; the reference semantics in checks/c02.py (ref_pairs) written from the property statement.'),
    'C15': dict(
        text='merge/embed/mask/forwards return a well-formed UpgradedSignature or raise ValueError (IncompatibleSignatures on role-consistent merge/embed inputs) on all 1.7M ordered pairs, 1.15M embed cases, 3.9M mask calls with duplicate/positional-only/foreign names and all 16 flag sets, 800k forwards calls, 600k triples, a quarter of them repeated with downgraded inputs (same parameters + DeprecationWarning); retrieval falls back to the plain signature on 230k generated wrappers whose forwarding cannot be honoured.',
        design_ref='DESIGN.md 2/C15', technique='bounded-exhaustive enumeration + Hypothesis with an outcome-type / well-formedness oracle and an upgraded-vs-downgraded differential',
        note='Well-formedness = re-validation of plain copies through the inspect.Signature constructor, UpgradedParameter instances, +depths present.'),
    'C16': dict(
        category='fault_enumeration',
        text='Part B enumerates crash points: for 40 scenario instances every crossing index (about 1 000 per retrieval) and for all 320 instances the first two occurrences of every distinct crossing signature x 6 exception types x 4 retrieval actions; after each run every object of the scenario has exactly its former attributes and the as_forged guard is empty. Part A snapshots inputs deeply around 1.2M algebra calls and checks results share no provenance container with inputs.',
        design_ref='DESIGN.md 2/C16', technique='exhaustive fault injection at sigtools->outside call boundaries (sys.setprofile) with before/after snapshot oracle; snapshot + aliasing invariant over generated algebra calls',
        note='Fault model: exception on entry of a Python-level call from a sigtools frame into a non-sigtools frame. C-level calls are not injection points. Snapshot depth 5 through __wrapped__/__signature__/func/__func__/__self__.'),
    'C12': dict(
        text='For every function of the <=3-named universe and every (kwoargs names, posoargs names) subset pair, start=/end= choice and autokwoargs exceptions= subset, as function, bound method and class attribute: decoration raises ValueError exactly for inadmissible selections (independent reference), sigtools.signature and inspect.signature equal the reference parameter list, and on 192 call shapes with distinguishable values the call raises TypeError iff the reference binding rejects it and otherwise delivers every value/default to the right parameter (2.7M decorations, ~10M calls in thorough).',
        design_ref='DESIGN.md 2/C12', technique='bounded-exhaustive enumeration + Hypothesis vs an independent reference model (advertised signature) and CPython-binding-with-values oracle (differential on real calls)',
        note='Trusted: vlib/cpbind.py Binder.bind; reference `expected` in checks/c12.py. One known finding (F12) is reported as KNOWN-FINDING and excluded by bucket.'),
    'C19': dict(
        text='For every function of the <=3-named universe, every bound positional count and every bound keyword set (<=3) in every insertion order (incl. partial-of-partial), signatures.signature(p) and sigtools.signature(p) accept exactly the non-colliding shapes the real partial object accepts (160 shapes, real calls), raise ValueError iff the partial is uncallable, and satisfy the structural clauses (identity of defaults, keyword-only followers, *args removal, absorbed keywords sourced to the partial, depth 0); partials of generated forwarding wrappers resolve the callee from bound positionals only.',
        design_ref='DESIGN.md 2/C19', technique='bounded-exhaustive enumeration + Hypothesis, differential against really calling the functools.partial object',
        note='Trusted: vlib/cpbind.py for the signature side; the partial object itself is the oracle for the behaviour side.'),
    'C20': dict(
        text='For every signature of the <=3-named universe in three decorations (defaults, annotations, return annotation), eager and postponed, support.s / f / func_from_sig reproduce the generator\'s spec under the native spelling and the 7 modifiers-based read_sig option combinations (no positional-only parameters), f returns its arguments keyed by name, bind_callsig/sort_callsigs agree with really calling the function on 192 shapes, and make_up_callsigs contains every prefix x keyword subset; plus 24k Hypothesis signatures with <=5 named parameters.',
        design_ref='DESIGN.md 2/C20', technique='bounded-exhaustive enumeration + Hypothesis; round-trip against the generator spec and differential against real calls / CPython-binding-with-values model',
        note='Trusted: vlib/cpbind.py Binder.bind. Expected parameter lists come from the generator spec, not from parsing the text.'),
    'C14': dict(
        text='For every signature (and parameter) of the <=3-named universe in 4 decorations (eager/postponed), 60k algebra results and generated discovery results: str/bind/bind_partial agree with the plain inspect counterpart on every shape; replace() keeps type/provenance/upgraded annotations unless overridden; ==/!= against 20 partner kinds return bools, are reflexive, symmetric (also against plain counterparts, which compare equal), negation-consistent and hash-consistent; hashable whenever the plain counterpart is (9M evaluations in thorough).',
        design_ref='DESIGN.md 2/C14', technique='bounded-exhaustive enumeration + Hypothesis; differential against plain inspect.Signature/Parameter objects and algebraic laws of equality/hash over a partner menagerie',
        note='Partners whose own __eq__ misbehaves are out of scope; the indifferent partner returns NotImplemented.'),
    'C08': dict(
        text='The provenance invariant (one entry per parameter plus +depths, non-empty duplicate-free lists of callables that have a depth and declare the name, exact contributors on role-consistent merge inputs, single truthful contributor for embed/forwards, input depths 0/1/i, no stray depth keys, wrapper-for-wrapped swap) holds on every merge result over all 1.7M ordered pairs, every embed result over 1.15M (outer, inner, flags) cases incl. same-named inner stars, 800k mask/forwards/3-ary results, 32k Hypothesis cases, 500 generated forwarding chains (functions, methods, wraps, partial, modifiers, forwards_to, decorator; depth increase and min-depth on a diamond) and a list of standard-library callables.',
        design_ref='DESIGN.md 2/C08', technique='bounded-exhaustive enumeration + Hypothesis with an invariant oracle over result.sources (ground truth: which input callable declares which name, known by construction)',
        note='"Declares" = own def parameters or what signatures.signature(obj) advertises (a functools.wraps wrapper stands for both). One known finding (F14, duplicates from merging two forwarding calls) is excluded by bucket.'),
    'C10': dict(
        text='The default / annotation / kind / order rules hold for every parameter of merge results on name-aligned inputs (all aligned pairs of the <=2-named universe under two default/annotation taggings; 400k Hypothesis cases: n=2,3 aligned tuples with tagged defaults incl. None and equal-but-distinct objects, renamed positionals), of embed/forwards results (single truthful contributor, outer-before-inner per kind, defaults dropped only for outer positionals followed by a required inner positional, partial => None), of mask results and partial objects (identity of bound defaults).',
        design_ref='DESIGN.md 2/C10', technique='Hypothesis constructive generation + bounded enumeration vs reference rules written from the property (contributors known by construction)',
        note='Star-parameter annotations are only required not to be invented (which stars a result star stands for is not pinned down). One known finding (F8, 3-way annotation fold) is excluded by bucket.'),
    'C17': dict(
        text='Under a harness-owned deterministic scheduler, for 23 two-thread and 4 three-thread scenarios over shared objects (functools.wraps chains, as_forged objects, wrappers.decorator/wrapper_decorator objects and methods, modifiers-wrapped methods on same/different instances, Combination, partial), in both role orders: ALL one-preemption schedules at line granularity inside sigtools (thorough: ~120k schedules, exhaustive per scenario), ~1 800 two-preemption schedules per scenario starting in shared-state windows, and sampled three-thread schedules return the sequential answer in every thread, lose no attribute at quiescence and leave later retrievals unchanged.',
        design_ref='DESIGN.md 2/C17', technique='systematic schedule enumeration with a cooperative scheduler (sys.settrace preemption points) vs sequential-run oracle',
        note='Preemption only at line boundaries of sigtools frames; finer-grained (bytecode-level, C-level) races are not explored. Non-terminating schedule = harness error.'),
    'C18': dict(
        text='Part A: for every function of the <=3-named universe with >=2 positional-or-keyword parameters and every step set from {kwoargs, posoargs, autokwoargs(exceptions=), annotate}, ALL application orders that are stepwise admissible (independent reference) succeed and agree on sigtools/inspect signature (incl. annotations applied last) and on call behaviour over all shapes. Part B: 24k generated histories + 3.2k Hypothesis rule-based state-machine runs (<=30 steps) + every rule sequence of length <=5 over a 9-letter alphabet on classes with modifiers / forwards_to_method (emulate both ways) / wrappers.decorator methods agree with a pristine model after every step, bind to the right instance, and every dropped instance is reclaimed (weakref after gc.collect()).',
        design_ref='DESIGN.md 2/C18', technique='permutation metamorphic testing against C12\'s reference + Hypothesis stateful (RuleBasedStateMachine) / exhaustive short histories vs a pristine-model oracle with weakref reclamation invariant',
        note='Reclamation is observed only after the machine dropped all strong references it holds (instance, bound objects). Model strings computed once on a fresh copy of the classes.'),
}
