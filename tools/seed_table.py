#!/usr/bin/env python3
"""Read a tools/seed_all.sh log, set detected_by in every seeded/<name>/meta.json to what the sweep observed and
print the markdown table for DESIGN.md section 6.   tools/seed_table.py <log> [--write]"""
import json, os, re, sys
log = open(sys.argv[1]).read()
write = '--write' in sys.argv
res = {}
for m in re.finditer(r'seed=(\S+) check=(\S+) tier=(\S+) exit=(\d)', log):
    res.setdefault(m.group(1), {})[m.group(2)] = (m.group(3), int(m.group(4)))
demo = dict((m.group(1), (m.group(2), m.group(3))) for m in re.finditer(r'seed=(\S+) demo_without=(\d+) demo_with=(\d+)', log))
rows = []
for name in sorted(os.listdir('/verif/seeded')):
    p = '/verif/seeded/%s/meta.json' % name
    meta = json.load(open(p))
    r = res.get(name, {})
    caught = dict((c, t) for c, (t, e) in r.items() if e == 1) if r else dict(meta.get('detected_by', {}))
    missed = [c for c, (t, e) in r.items() if e != 1]
    if write and r:
        meta['detected_by'] = caught
        meta['sweep'] = {'demo_without_patch_exit': demo.get(name, ('?', '?'))[0], 'demo_with_patch_exit': demo.get(name, ('?', '?'))[1],
                         'not_detected_by': missed}
        json.dump(meta, open(p, 'w'), indent=1)
    note = meta.get('note', '')
    rows.append('| %s | %s | %s | %s |' % (name, meta['needs_to_manifest'].replace('|', '\\|')[:150],
                                          ', '.join('%s (%s)' % kv for kv in sorted(caught.items())) or '**not detected**',
                                          note.replace('|', '\\|')[:170]))
print('| seeded change | needs, to manifest | caught by | remark |\n|---|---|---|---|')
print('\n'.join(rows))
print('\n%d seeded changes, %d detected by at least one check' % (len(rows), sum(1 for r in rows if 'not detected' not in r)))
