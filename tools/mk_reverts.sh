#!/bin/sh
# Regenerate mutants/revert-F<n>.patch against /repo HEAD: each is `git revert` of one fix commit,
# taken in a scratch clone (conflicts are reported; such a patch is kept as it was).
set -u
TMP=$(mktemp -d /tmp/rev.XXXXXX); trap 'rm -rf "$TMP"' EXIT
git clone -q /repo "$TMP/r"; cd "$TMP/r"; git config user.email x@y; git config user.name x
while read -r id subj; do
  h=$(git log --format='%h %s' | grep -F "$subj" | head -1 | cut -d' ' -f1)
  [ -z "$h" ] && { echo "no commit for $id ($subj)"; continue; }
  git reset -q --hard HEAD
  if git revert --no-commit "$h" >/dev/null 2>&1; then
    git diff HEAD > "/verif/mutants/revert-$id.patch"; echo "ok $id $h"
  else
    echo "CONFLICT $id $h (patch left as is)"; git revert --abort 2>/dev/null || git reset -q --hard HEAD
  fi
done <<'LIST'
F1 merge keeps parameters converted to positional-only
F2 mask no longer depends on the order
F3 embed keeps the provenance of inner star
F4 upgraded signatures and parameters compare and hash
F5 automatic discovery no longer removes attributes
F6 binding a modifiers-wrapped method no longer keeps
F7 automatic discovery takes positional-only parameters
F9 merge compares what annotations denote
F10 apply_forwards_to_super passes num_args
F11 wrapper objects no longer reserve
F13 support.func_from_sig handles signatures
F15 merge credits both inputs
F16 the recursion guard behind as_forged is per thread
F17 looks names up through empty intermediate scopes
F18 sees calls in default values and decorators
F19 mask takes the named arguments into account
F21 reading a name no longer makes
F22 falls back when the forwarding calls found are incompatible
F23 mask checks num_args against the signature
F24 no longer fails on lambdas
F25a the Sphinx hook falls back for members
F25b the Sphinx hook shows annotations as written
F27 a signature forger returning something else
F28 notices every statement that rebinds
F29 gives comprehensions a scope of their own
F30 notices **kwargs being altered from nested functions
F31 falls back for functools.partial(*args, **kwargs)
F12 whose first parameter is named in the decorator
F32 stacked modifiers are re-applied
F33 comparing signatures whose annotations cannot be evaluated
F34 UpgradedSignature accepts any iterable
F35 modifiers wrappers and Combination no longer reserve
F36 wrappers.wrappers no longer lists a wrapper twice
F37 knows that generator expressions run when they are consumed
F38 treats nested async def like nested def
F39 no longer recurses forever
F40 falls back when a discovered signature cannot take the bound arguments
F41 tolerates values that only make sense at run time
F42 mock objects get the signature inspect gives them
F43 does not resolve an attribute the function itself assigns
F44 falls back when the callee cannot be introspected
F45a the Sphinx hook does not raise for modules
F45c the Sphinx hook shows every parameter of a static method
F46 methods can be looked up when binding uses up the named parameter
F47 a partial object binding a keyword spelled like a star parameter
F48 known arguments that do not fit the function
F49 apply_params without sources= no longer shares
F50 modifiers.annotate can annotate a parameter called self
F53 annotations of functools.wraps wrappers are resolved
F55 takes loops into account
F56 also falls back when unpacking a value raises
F57 reads methods and nested functions whose source has lines indented less
F58 an annotation set to a value at run time
F59 replacing an annotation also replaces what evaluated
F60 copes with source files that changed after import
F61 results of the algebra get provenance lists of their own
F62 drops the provenance of parameters it takes away
F63 the signature of a class is that of making an instance
F64 forwards_to_super finds the class of a method that modifiers wrapped
F65 to an attribute that does not exist surfaces as ValueError
F66 works on as_forged objects that carry their forger themselves
F67 lies deeper than its caller
F69 is decided by identity with the empty marker
F71 mask refuses a negative number of positional arguments
F70 without any signature raise ValueError
F72 a bound method taken from **kwargs
F73 the element of a comprehension is evaluated once per item
F74 a positional argument written after *args
F75 annotate applied over a modifier also updates the bound wrappers
F76 an attribute the function assigns is unknown also where it is passed on
F77 annotations that functools.wraps handed over to a wrapper
F78 a signature forger set on a class is for the class
LIST
