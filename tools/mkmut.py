#!/usr/bin/env python3
"""Make a mutant patch: tools/mkmut.py <name> <file-relative-to-repo> <old> <new>  (exact, unique substring)"""
import sys, subprocess, tempfile, os, shutil
name, rel, old, new = sys.argv[1:5]
src = open(os.path.join('/repo', rel)).read()
assert src.count(old) == 1, 'old string occurs %d times' % src.count(old)
tmp = tempfile.mkdtemp()
try:
    a = os.path.join(tmp, 'a', rel); b = os.path.join(tmp, 'b', rel)
    os.makedirs(os.path.dirname(a)); os.makedirs(os.path.dirname(b))
    open(a, 'w').write(src); open(b, 'w').write(src.replace(old, new))
    out = subprocess.run(['diff', '-u', 'a/' + rel, 'b/' + rel], cwd=tmp, capture_output=True, text=True).stdout
    open(os.path.join('/verif/mutants', name + '.patch'), 'w').write(out)
    print('wrote', name, len(out.splitlines()), 'lines')
finally:
    shutil.rmtree(tmp)
