#!/bin/sh
# Run every stored seeded change against the check of its property (plus any other check its meta.json names),
# quick tier; one line per (seed, check).  Output: seed=<name> check=<ID> tier=quick exit=<0|1|2>
#   tools/seed_all.sh [parallel jobs, default 3]
cd /verif
one() {
  d=$1; n=$(basename "$d"); c=${n%%-*}
  base=$(python3 -c "import json;print(json.load(open('$d/meta.json')).get('base_commit','5b8bfa1'))")
  checks=$(python3 -c "import json;m=json.load(open('$d/meta.json'));print(' '.join(sorted(set(['$c'])|set(m.get('detected_by',{})))))")
  SEED_BASE=$base tools/seed_verify.sh "$d" "$n" $checks 2>&1 | grep -E "check=|PATCH-FAILED|demo_without" | cut -c1-200
}
if [ "${1:-}" = "--one" ]; then one "$2"; exit 0; fi
ls -d seeded/*/ | xargs -P "${1:-3}" -n 1 "$0" --one
