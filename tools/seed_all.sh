#!/bin/sh
# Run every stored seeded change against the check of its property (quick tier); one line per seed.
cd /verif
for d in seeded/*/; do
  n=$(basename "$d"); c=${n%%-*}
  tools/seed_verify.sh "$d" "$n" "$c" 2>&1 | grep -E "check=|PATCH-FAILED|demo_without" | cut -c1-220
done
