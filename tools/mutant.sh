#!/bin/sh
# Sensitivity run: apply a patch to a scratch copy of /repo and run checks against it.
#   tools/mutant.sh <patch.diff> [--tests] [--tier quick|thorough] <ID>...
# Prints, per ID, the exit code (1 = caught). The copy, its caches and the run's evidence
# (VERIF_OUT) live in a temp dir that is removed at the end. /repo and /verif/evidence are untouched.
set -u
PATCH=$(readlink -f "$1"); shift
TESTS=0; TIER=quick
while [ $# -gt 0 ]; do
  case "$1" in
    --tests) TESTS=1; shift;;
    --tier) TIER=$2; shift 2;;
    *) break;;
  esac
done
TMP=$(mktemp -d /tmp/mut.XXXXXX)
trap 'rm -rf "$TMP"' EXIT
mkdir -p "$TMP/repo" "$TMP/out"
(cd /repo && git ls-files -z | xargs -0 cp --parents -t "$TMP/repo") 
if ! (cd "$TMP/repo" && patch -p1 -s < "$PATCH"); then echo "PATCH-FAILED $PATCH"; exit 3; fi
if [ $TESTS = 1 ]; then
  (cd "$TMP/repo" && /venv/bin/python -m pytest -q -p no:cacheprovider --timeout=900 --continue-on-collection-errors 2>&1 | tail -1)
fi
for ID in "$@"; do
  VERIF_REPO="$TMP/repo" VERIF_OUT="$TMP/out" /verif/run "$ID" --tier "$TIER" > "$TMP/out/$ID.log" 2>&1
  rc=$?
  echo "mutant=$(basename "$PATCH") check=$ID tier=$TIER exit=$rc $(grep -c '^VIOLATION' "$TMP/out/$ID.log") violation lines; first: $(grep -m1 -A2 '^VIOLATION' "$TMP/out/$ID.log" | tr '\n' ' ' | cut -c1-400)"
  if [ $rc = 2 ]; then tail -5 "$TMP/out/$ID.log"; fi
done
