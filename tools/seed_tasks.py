#!/usr/bin/env python3
"""Write the TASK.md each seeding sub-agent gets (the text of one property, its anchors, what earlier
seeded changes needed -- nothing from /verif) into fresh scratch worktrees of /repo HEAD.
    tools/seed_tasks.py /tmp/seed5
"""
import glob, json, os, subprocess, sys

T = '''# Task: seed a realistic, subtle defect that breaks one semantic property of epsy/sigtools

You work ONLY inside this scratch git worktree: {root}  (a checkout of the Python library
epsy/sigtools). Do not read, list or modify /repo, /verif, or any other directory under /tmp.
Interpreter: /venv/bin/python (3.12). Always `cd {root}` first so that `import sigtools` picks up
THIS worktree's sources (verify once: `/venv/bin/python -c "import sigtools; print(sigtools.__file__)"`
must print a path under {root}).

Existing test suite (must keep passing):
    cd {root} && /venv/bin/python -m pytest -q -p no:cacheprovider --timeout=900 --continue-on-collection-errors
Baseline result on the unmodified tree: `294 passed, 2 skipped, 10 errors` (the 10 collection errors are
pre-existing and expected; they must neither grow nor hide new failures).

## The property (what users of the library rely on)

**{id} — {title}**

{statement}

Quantified over: {quant}

Code the property is anchored in: {files}
Mechanisms: {mech}

## Already taken (do something different)

{ntaken} other changes were already made for this property by other people; yours must differ from all of them in
mechanism and in what they need to manifest. They needed, respectively:
{taken}

Prefer changes of these kinds, which nobody has tried yet for this property: a defect reachable only through a
*less-used public entry point or option* of the anchored code (an optional argument, a rarely used decorator
form, a helper that most callers reach indirectly), a defect that needs a *sequence* of two or three operations
(state left behind by the first matters for the second), a defect made of *two cooperating sites* that each look
correct alone, or a defect that shows only for an *unusual but legal kind of callable or signature* (callable
instances, classes, bound/unbound methods, partial objects, builtins, lambdas, coroutine or generator functions,
functions with positional-only parameters, parameter names that coincide across roles, falsy defaults,
unhashable defaults, string annotations). The checkout is newer than the anchors above (line numbers may be off
by a hundred lines or more; several functions were refactored). Important: a script run as
`python out/m1/demo.py` has `out/m1` (not the cwd) on sys.path, so each demo.py must insert the worktree root at
the front of sys.path before `import sigtools` and assert that sigtools.__file__ is under the worktree.

## What to produce

TWO different, independent changes to the library source (files under sigtools/, never the tests),
each of which makes the library violate this property while
 (a) the package still imports, and
 (b) the existing test suite still reports exactly 294 passed and no failures.

Each change must be *realistic* — the kind of mistake a maintainer could make in a refactor or a
"simplification": an off-by-one, a wrong branch condition, a forgotten case, swapped operands or order,
a missing copy, a missing restore/finally, a cache keyed wrongly, a check done in the wrong place —
and *subtle*: it must need something specific to manifest (a particular input shape or unusual input,
a multi-step sequence of operations, a particular thread interleaving, an exception raised at a particular
point, or two cooperating code sites that each look fine alone). Do not produce changes that ordinary
use would expose immediately, nor changes that break lots of unrelated behaviour. Make the two
changes different in kind and, if possible, in location. Aim for small diffs (1-15 lines).

For each change i = 1, 2 create the directory {root}/out/m<i>/ containing:
 * `patch.diff`  — `git diff` against HEAD (must apply with `git apply out/m<i>/patch.diff` from {root});
 * `demo.py`     — a standalone script, run as `cd {root} && /venv/bin/python out/m<i>/demo.py`, that
                   exits 0 on the unmodified tree and exits non-zero (failing assertion) when the change is
                   applied; it must demonstrate the violation of the property above on a concrete input
                   (sequence, schedule, fault point ...), using only the public behaviour of the library
                   (plus threading / monkeypatching of *outside* code if the scenario needs it);
 * `notes.md`    — what the change does, what exactly it needs in order to manifest, and why the existing
                   tests do not notice.

Procedure for each change: edit → run the test suite (294 passed) → run demo.py (must fail) →
`git diff > out/m<i>/patch.diff` → `git checkout -- sigtools` → run demo.py again (must pass).
Leave the worktree clean at the end (`git status --short` shows only `?? out/` and `?? TASK.md`).

Finish with a short report: for each change one paragraph (what, where, trigger).
'''

def main(dest):
    here = os.path.dirname(os.path.dirname(os.path.abspath(__file__)))
    os.makedirs(dest, exist_ok=True)
    for l in open(os.path.join(here, 'properties.jsonl')):
        p = json.loads(l)
        root = os.path.join(dest, p['id'])
        if not os.path.isdir(root):
            subprocess.check_call(['git', '-C', '/repo', 'worktree', 'add', '-q', '--detach', root, 'HEAD'])
        taken = [json.load(open(m))['needs_to_manifest']
                 for m in sorted(glob.glob(os.path.join(here, 'seeded', p['id'] + '-*', 'meta.json')))]
        a = p['anchors']
        mech = '; '.join('%s (%s)' % (m['name'], m['where']) for m in a.get('mechanism', []))
        open(os.path.join(root, 'TASK.md'), 'w').write(T.format(
            root=root, id=p['id'], title=p['title'], statement=p['statement'], quant=p['quantifier']['text'],
            files=', '.join(a['files']), mech=mech, ntaken=len(taken), taken='\n'.join(' * ' + t for t in taken)))

if __name__ == '__main__':
    main(sys.argv[1])
