#!/bin/sh
for c in C01 C02 C03 C04 C05 C06 C07 C08 C09 C10 C11 C12 C13 C14 C15 C16 C17 C18 C19 C20; do
  ./run $c --tier thorough 2>&1 | grep -E "^VIOLATION|^KNOWN|^C[0-9]+ tier|HARNESS" | cut -c1-220
done
