#!/venv/bin/python
"""Print the interesting part of replay files (detail header + generated program)."""
import json, sys
for f in sys.argv[1:]:
    d = json.load(open(f))
    det = d['detail']
    print('=====', d['bucket'], f)
    if 'def OTHER' in det:
        print(det.split('\n')[0][:900])
        print(det.split('def OTHER')[1].split('\n', 2)[2][:2500])
    else:
        print(det[:3000])
    c = d['case']
    if isinstance(c, dict) and 'prog' in c:
        print('shape', c.get('shape'), 'sel', c.get('sel'))
