#!/bin/sh
for c in C05 C06 C07 C11 C13 C04; do ./run $c --tier thorough 2>&1 | grep -E "^VIOLATION|^KNOWN|bucket=|^C[0-9]+ tier|HARNESS" | cut -c1-260; done
