"""C07 -- retrieval is total and only ever narrows the callable's own signature.

Domain 1 (real programs): every function, class, method / classmethod / staticmethod of a
class, functools.partial object and callable instance found in the importable standard
library modules (minus a deny-list of modules with import side effects) and the installed
distributions, plus sigtools' own API.  Domain 2 (generated adversarial sources): functions,
methods, lambdas, coroutines and generators taking *args/**kwargs whose bodies are assembled
by Hypothesis from a catalogue of Python constructs (async/await, yield from, walrus, match,
comprehensions, starred calls and displays, global/nonlocal, class bodies, decorators,
f-strings, except*, type parameters, rebinding forms ...), compiled with and without source
available; builtins and C callables; objects whose attribute access misbehaves.

Oracle, per object o:
 * inspect.signature(o) succeeds  =>  sigtools.signature(o), sigtools.signature(o, auto=False)
   and signatures.signature(o) return an UpgradedSignature (no exception at all);
   inspect.signature(o) raises X    =>  each of the three raises an exception of type X;
 * plain functions and methods (no forger, __signature__, __wrapped__): every non-colliding
   shape accepted by the result is accepted by the function's own def parameter list;
 * the Sphinx hook process_signature(...) never raises for an object addressable by a dotted
   name and returns either its inputs (fallback) or two strings, the first being the string
   form of the evaluated signature without return annotation.
"""
import functools
import importlib
import inspect
import itertools
import os
import pkgutil
import sys
import types
import warnings

from vlib import cpbind, realfn, universe
from vlib.framework import Stats, hyp_search

LEVEL = 'exploration'
RULE = ('non-trivial: inspect.signature succeeded and the object has a star parameter or is not a plain function (the discovery machinery '
        'actually ran), or inspect.signature raised (the error-agreement clause); distinct by module-qualified name (corpus) or source text (generated)')
ASSUMPTIONS = ['the corpus is what is importable in this sandbox; modules whose import fails or has side effects are skipped and counted',
               'narrowing is decided on shapes with <=3 keywords drawn from <=8 names and 0..cap+1 positionals']

DENY = {'antigravity', 'this', 'idlelib', 'tkinter', 'turtle', 'turtledemo', '__main__', 'test', 'lib2to3', 'pydoc_data',
        'ensurepip', 'venv', 'msilib', 'nt', 'winreg', 'winsound', '_winapi', 'msvcrt', 'ossaudiodev', 'spwd', 'crypt', 'nis',
        '__phello__', 'pty', 'tty', 'curses', 'readline', 'rlcompleter', 'site', 'sitecustomize', 'usercustomize', 'webbrowser',
        'xxsubtype', 'xxlimited', 'xxlimited_35', '_xxtestfuzz', '_testcapi', '_testinternalcapi', '_testbuffer', '_testimportmultiple',
        '_testmultiphase', '_testclinic', '_test_multiprocessing', '_ctypes_test', '_xxsubinterpreters', '_xxinterpchannels', 'smtpd', 'asynchat', 'asyncore', 'imp'}
THIRD = ['attr', 'attrs', 'sphinx', 'docutils', 'jinja2', 'pygments', 'hypothesis', '_pytest', 'pytest', 'requests', 'urllib3',
         'packaging', 'mock', 'sortedcontainers', 'babel', 'pluggy', 'markupsafe', 'iniconfig', 'repeated_test', 'sigtools']
THIRD_DENY_SUB = ('sphinx.ext.', 'sphinx.testing', 'hypothesis.extra', 'pygments.lexers.', 'pygments.styles.', 'pygments.formatters.',
                  'babel.messages.frontend', 'babel.messages.setuptools_frontend', 'docutils.parsers.rst.directives.',
                  'docutils.writers.', 'sigtools.tests', 'requests.packages', 'urllib3.contrib', 'attr._version_info', 'docutils.utils.math.')


def module_names(ctx):
    names = sorted(n for n in sys.stdlib_module_names if n not in DENY and not n.startswith('_test') and not n.startswith('test'))
    out = list(names)
    if not ctx.quick:
        for pkg in ('json', 'email', 'importlib', 'concurrent', 'asyncio', 'collections', 'http', 'logging', 'multiprocessing', 'unittest',
                    'urllib', 'xml', 'xmlrpc', 'wsgiref', 'sqlite3', 'html', 'dbm', 'ctypes', 'encodings', 're', 'tomllib', 'zoneinfo'):
            try:
                m = importlib.import_module(pkg)
                for info in pkgutil.walk_packages(m.__path__, pkg + '.'):
                    if not any(part.startswith('test') or part == '__main__' for part in info.name.split('.')):
                        out.append(info.name)
            except Exception:
                pass
    for pkg in THIRD:
        out.append(pkg)
        try:
            m = importlib.import_module(pkg)
            path = getattr(m, '__path__', None)
            if path:
                for info in pkgutil.walk_packages(path, pkg + '.'):
                    if info.name.startswith(THIRD_DENY_SUB) or '__main__' in info.name:
                        continue
                    out.append(info.name)
        except Exception:
            pass
    return list(dict.fromkeys(out))


def objects_of(mod):
    """(qualified name, object, dotted?) for the callables a module defines."""
    modname = mod.__name__
    seen = set()
    for name, obj in sorted(vars(mod).items(), key=lambda kv: kv[0]):
        if name.startswith('__') and name.endswith('__'):
            continue
        try:
            if not callable(obj):
                continue
            home = getattr(obj, '__module__', None)
        except Exception:
            continue
        if isinstance(obj, types.ModuleType):
            continue
        if home is not None and home != modname and not isinstance(obj, functools.partial):
            continue
        if id(obj) in seen:
            continue
        seen.add(id(obj))
        yield '%s.%s' % (modname, name), obj, True
        if isinstance(obj, type):
            for an, raw in sorted(vars(obj).items(), key=lambda kv: kv[0]):
                if an.startswith('__') and an not in ('__init__', '__call__', '__new__'):
                    continue
                if not isinstance(raw, (types.FunctionType, classmethod, staticmethod, functools.partial, property)) and not callable(raw):
                    continue
                if isinstance(raw, property):
                    continue
                try:
                    attr = getattr(obj, an)
                except Exception:
                    continue
                if callable(attr) and id(attr) not in seen:
                    seen.add(id(attr))
                    yield '%s.%s.%s' % (modname, name, an), attr, True


def three_getters():
    import sigtools
    from sigtools import signatures
    return (('sigtools.signature', sigtools.signature),
            ('sigtools.signature(auto=False)', lambda o: sigtools.signature(o, auto=False)),
            ('signatures.signature', signatures.signature))


def frame_bucket(e):
    """(type, innermost sigtools frame) -- one root cause, one bucket."""
    tb = e.__traceback__
    where = '?'
    while tb is not None:
        fn = tb.tb_frame.f_code.co_filename
        if os.sep + 'sigtools' + os.sep in fn:
            where = '%s:%s' % (os.path.basename(fn), tb.tb_frame.f_code.co_name)
        tb = tb.tb_next
    return '%s@%s' % (type(e).__name__, where)


from vlib.framework import time_budget, BudgetExceeded as _BudgetExceeded     # noqa: E402


def check_object(qual, obj, stats, case, dotted=False, src=None):
    from sigtools import signatures, specifiers
    UpgradedSignature = signatures.UpgradedSignature
    specifiers.as_forged.currently_computing.clear()
    stats.case()
    with warnings.catch_warnings():
        warnings.simplefilter('ignore')
        try:
            own = inspect.signature(obj)
            ierr = None
        except Exception as e:
            own, ierr = None, e
        results = {}
        for gname, getter in three_getters():
            try:
                with time_budget(30):
                    r = getter(obj)
            except _BudgetExceeded:
                # a time budget is never a verdict: the case is counted as inconclusive and the run goes on
                stats.cls('inconclusive/retrieval-exceeded-30s')
                stats.notes.append('%s(%s) did not finish within 30 s (inconclusive)' % (gname, qual))
                continue
            except Exception as e:
                if ierr is None:
                    stats.fail('C07/raises-where-inspect-succeeds/%s' % ('RecursionError' if isinstance(e, RecursionError) else frame_bucket(e)), case,
                               '%s(%s) raised %s: %s although inspect.signature gives %s%s' % (
                                   gname, qual, type(e).__name__, str(e)[:300], own, '\n' + src if src else ''))
                elif type(e) is not type(ierr):
                    stats.fail('C07/different-exception/%s-instead-of-%s' % (type(e).__name__, type(ierr).__name__), case,
                               '%s(%s) raised %s: %s where inspect.signature raises %s: %s' % (
                                   gname, qual, type(e).__name__, str(e)[:200], type(ierr).__name__, str(ierr)[:200]))
                else:
                    stats.cls('same-exception/%s' % type(e).__name__)
                continue
            if ierr is not None:
                stats.fail('C07/returns-where-inspect-raises/%s' % type(ierr).__name__, case,
                           '%s(%s) returned %s where inspect.signature raises %s: %s' % (gname, qual, r, type(ierr).__name__, str(ierr)[:200]))
                continue
            if not isinstance(r, UpgradedSignature):
                stats.fail('C07/not-upgraded', case, '%s(%s) returned a %s' % (gname, qual, type(r).__name__))
                continue
            results[gname] = r
        if ierr is not None:
            stats.nontriv(('err', qual))
            stats.sample('inspect-raises/' + type(ierr).__name__, {'object': qual, 'error': str(ierr)[:120]})
            return
        kinds = [int(p.kind) for p in own.parameters.values()]
        has_star = 2 in kinds or 4 in kinds
        plainfn = isinstance(obj, types.FunctionType) or (isinstance(obj, types.MethodType) and isinstance(obj.__func__, types.FunctionType))
        stats.cls('kind/%s%s' % (type(obj).__name__, '/star' if has_star else ''))
        if has_star or not plainfn:
            stats.nontriv(qual if src is None else src)
        # narrowing ------------------------------------------------------------------
        base = obj.__func__ if isinstance(obj, types.MethodType) else obj
        # (classes too: calling a class is making an instance, whatever __call__ it defines for its instances)
        plaincls = isinstance(obj, type) and not any(a in vars(obj) for a in ('__signature__', '_sigtools__forger', '_sigtools__autoforwards_hint'))
        if (plainfn or plaincls) and not any(hasattr(base, a) for a in ('__wrapped__', '__signature__', '_sigtools__forger', '_sigtools__autoforwards_hint')):
            oview = universe.sig_view(own)
            ob = cpbind.binder(oview)
            for gname, r in results.items():
                rview = universe.sig_view(r)
                if rview == oview:
                    continue
                stats.cls('refined/%s' % gname)
                rb = cpbind.binder(rview)
                kp = cpbind.kwpassable(rview)
                on = set(n for n, k, d in oview)
                pool = list(dict.fromkeys(list(kp) + [n for n, k, d in oview] + ['q', 'zz']))[:8]
                cap = max(cpbind.poscap(rview), cpbind.poscap(oview))
                bad = None
                for npos in range(cap + 2):
                    for rr in range(4):
                        for K in itertools.combinations(pool, rr):
                            if not all((k in kp) or (k not in on) for k in K):
                                continue
                            if rb.accepts(npos, K) and not ob.accepts(npos, K):
                                bad = (npos, K)
                                break
                        if bad:
                            break
                    if bad:
                        break
                if bad:
                    stats.fail('C07/widens', case, '%s(%s) = %s accepts (npos=%d, kw=%s) which the function\'s own parameter list %s rejects%s' % (
                        gname, qual, r, bad[0], list(bad[1]), own, '\n' + src if src else ''))
                else:
                    stats.sample('refined', {'object': qual, 'own': str(own), 'reported': str(r), 'via': gname})
        # Sphinx hook ------------------------------------------------------------------
        if dotted:
            check_sphinx(qual, obj, stats, case)


_sphinx = {}


def check_sphinx(qual, obj, stats, case):
    import sigtools
    if 'mod' not in _sphinx:
        try:
            from sigtools import sphinxext
            _sphinx['mod'] = sphinxext
        except Exception as e:
            _sphinx['mod'] = None
            stats.notes.append('sigtools.sphinxext not importable: %s' % e)
    ext = _sphinx['mod']
    if ext is None:
        return
    stats.case()
    sentinel = ('<in-sig>', '<in-ret>')
    try:
        out = ext.process_signature(None, 'function', qual, obj, {}, sentinel[0], sentinel[1])
    except RecursionError:
        raise
    except Exception as e:
        stats.fail('C07/sphinx-hook-raised/%s' % frame_bucket(e), case,
                   'sphinxext.process_signature(..., %r, ...) raised %s: %s' % (qual, type(e).__name__, str(e)[:300]))
        return
    if out == sentinel:
        stats.cls('sphinx/fallback')
        return
    if not (isinstance(out, tuple) and len(out) == 2 and isinstance(out[0], str) and isinstance(out[1], str)):
        stats.fail('C07/sphinx-hook-result', case, 'sphinxext.process_signature(..., %r, ...) returned %r, expected its inputs or two strings' % (qual, out))
        return
    stats.cls('sphinx/strings')
    short = qual.split('.', 1)[1] if '.' in qual else qual
    if qual.startswith('verif_sphinx_case.') and short in SPHINX_EXPECT and out[0] != SPHINX_EXPECT[short]:
        stats.fail('C07/sphinx-hook-string/member', case, 'sphinxext.process_signature(..., %r, ...)[0] = %r, the member is written %s' % (
            qual, out[0], SPHINX_EXPECT[short]))
    if isinstance(obj, types.FunctionType) and isinstance(sys.modules.get(qual.rsplit('.', 1)[0]), types.ModuleType):
        try:
            if ext.fetch_dotted_name(qual)[1] is not obj:
                return          # the dotted name denotes another object (C accelerator modules)
            ev = sigtools.signature(obj).evaluated()
        except Exception:
            return
        want = str(ev.replace(return_annotation=ev.empty))
        if out[0] != want:
            stats.fail('C07/sphinx-hook-string', case, 'sphinxext.process_signature(..., %r, ...)[0] = %r, the evaluated signature prints as %r' % (qual, out[0], want))


def shard_corpus(arg):
    names, = arg
    st = Stats()
    for modname in names:
        try:
            with warnings.catch_warnings():
                warnings.simplefilter('ignore')
                mod = importlib.import_module(modname)
        except BaseException as e:
            st.cls('module-skipped/%s' % type(e).__name__)
            continue
        st.cls('module-scanned')
        try:
            objs = list(objects_of(mod))
        except Exception:
            st.cls('module-skipped/listing')
            continue
        for qual, obj, dotted in objs:
            check_object(qual, obj, st, {'kind': 'corpus', 'object': qual}, dotted=dotted)
    return st


# ------------------------------------------------------------------- generated sources

STMTS = [
    'return F(*args, **kwargs)',
    'r = F(*args, **kwargs)',
    'if (n := len(args)) > 1:\n    F(*args, **kwargs)',
    'match args:\n    case (first, *rest):\n        F(*rest, **kwargs)\n    case _:\n        pass',
    'match kwargs:\n    case {"k": v, **others}:\n        F(*args, **others)',
    'vals = [F(*args, **kwargs) for _ in range(2)]',
    'd = {k: F(v, *args) for k, v in kwargs.items()}',
    's = {*args}',
    'gen = (F(x, **kwargs) for x in args)',
    'F(*args, *args, **kwargs)',
    'F(*args, **kwargs, **kwargs)',
    'lst = [*args, 1]\nmp = {**kwargs, "a": 1}',
    'global G1\nG1 = F(*args, **kwargs)',
    'def inner():\n    nonlocal args\n    args = ()\n    return F(*args, **kwargs)\ninner()',
    'def inner(*args):\n    return F(*args, **kwargs)',
    'class C:\n    x = F(*args, **kwargs)\n    def m(self):\n        return F(*args, **kwargs)',
    '@DECO(*args)\ndef decorated():\n    return F(*args, **kwargs)',
    's = f"{F(*args, **kwargs)!r:>{len(args)}}"',
    'try:\n    F(*args, **kwargs)\nexcept* ValueError:\n    pass',
    'try:\n    F(*args, **kwargs)\nexcept Exception as args:\n    pass\nelse:\n    G(*args)\nfinally:\n    F(**kwargs)',
    'fn = lambda a=F(*args): a',
    'fn = lambda *args, **kwargs: F(*args, **kwargs)',
    'def tp[T](x: T) -> T:\n    return F(x, *args, **kwargs)',
    'type Alias = int',
    'with CM() as args:\n    F(*args, **kwargs)',
    'for kwargs in ():\n    pass\nF(*args, **kwargs)',
    'import os as args\nF(*args, **kwargs)',
    'from os import path as kwargs',
    'del kwargs\nF(*args)',
    'x = F(*args, **kwargs) if args else G(**kwargs)',
    'assert F(*args, **kwargs), "m"',
    'raise E(*args) from None',
    'while args:\n    args = args[1:]\nF(*args, **kwargs)',
    'y: int = F(*args, **kwargs)',
    'F(*args, **kwargs)(*args, **kwargs)',
    'F.attr.method(*args, **kwargs)',
    'F[0](*args, **kwargs)',
    '(F or G)(*args, **kwargs)',
    'F(*args, key=lambda *a, **k: G(*a, **k), **kwargs)',
    'args += (1,)\nkwargs |= {"a": 1}\nF(*args, **kwargs)',
    '[args := (1,)]\nF(*args, **kwargs)',
    'kwargs["x"] = kwargs.pop("y", None)\nF(*args, **kwargs)',
    'F(*args[1:], **{k: v for k, v in kwargs.items()})',
    'print(args, kwargs)',
    'functools.partial(F, *args, **kwargs)()',
    'return functools.partial(F, 1, *args, **kwargs)',
    'def attempt(v, *, retries):\n    return F(v, *args, **kwargs)\nattempt(1, retries=2)',
    'key = lambda s, *, key, reverse=False: F(*args, **kwargs)',
    'def opt(v, w=F(*args), *, k=G(**kwargs), r):\n    return v',
    'return functools.partial(*args, **kwargs)',
    'p = functools.partial(*args)\nq = functools.partial(**kwargs)',
    'vals = [F(*args, **kwargs) for args in ((1,), (2,))]',
    'vals = [fn(*args, **kwargs) for fn in (F, G)]',
    'a, *args = args\nF(a, *args, **kwargs)',
    'def args():\n    pass\nF(*args, **kwargs)',
    'class kwargs:\n    pass\nF(*args, **kwargs)',
    'async def co():\n    await F(*args, **kwargs)\n    async with CM() as x:\n        pass\n    async for i in F(*args):\n        pass\n    return [await F(**kwargs) async for _ in G()]',
    'def g():\n    yield from F(*args, **kwargs)\n    x = yield',
    'F(*args, **kwargs).attr.other(*args)',
    'F(G(*args, **kwargs), *args, k=G(**kwargs), **kwargs)',
    '...',
    '"docstring"',
    'pass',
    # recursion (direct and mutual), callees that can take none of what is forwarded, values that are not what the
    # star-argument syntax needs at inspection time, attribute access that raises
    'return w(*args, **kwargs)',
    'return PING(*args, **kwargs)',
    'return NOARGS(*args, **kwargs)',
    'return F(*args, **NONE)',
    'return F(*FIVE, **kwargs)',
    'return G(1, *args, **NONE)',
    'return PROP.boom(*args, **kwargs)',
    'return PROP.boom.deeper(*args, **kwargs)',
    'return EQ(*args, **kwargs)',
    'return F(*BADITER, **kwargs)',
    'g = (F(*args, **kwargs) for _ in range(1))\nargs = ()\nreturn list(g)',
    'async def co2(*args, **kwargs):\n    return F(*args, **kwargs)\nreturn co2()',
    # physical lines indented less than the def they belong to (\x01 = stays in column 0): inside a class or a function the
    # source of such a def cannot be dedented, so it does not parse on its own
    's = \"\"\"text\n\x01in column zero\n\"\"\"\nF(*args, **kwargs)',
    'r = F(*args,\n\x01**kwargs)',
    '\x01# a comment in column zero\nF(*args, **kwargs)',
    'r = [\n\x01  1,\n]\nreturn F(*args, **kwargs)',
    # every remaining node type of the grammar with a star parameter somewhere below it
    'return F(*(args + (1,)), **(kwargs | {"z": 1}))',
    'return -F(*args, **kwargs) + (not G(*args)) * ~len(kwargs)',
    's = {F(a, **kwargs) for a in args}',
    'for a in args:\n    if a:\n        continue\n    F(a, *args, **kwargs)\n    break\nelse:\n    G(*args, **kwargs)',
    'match F(*args, **kwargs):\n    case None | True:\n        G(*args)\n    case 0 | 1 as args:\n        G(*args)\n    case E(args=kwargs):\n        F(**kwargs)\n    case functools.partial(func=args) if args:\n        pass',
    'match args, kwargs:\n    case (), {}:\n        return G(*args, **kwargs)\n    case [F.attr, *_], {"k": None}:\n        return F(*args, **kwargs)',
    'def tp2[*Ts, **P](*args: *Ts, **kwargs: P.kwargs):\n    return F(*args, **kwargs)\nreturn tp2(*args, **kwargs)',
    'class Gen[T: (int, str)]:\n    attr = F(*args, **kwargs)',
    'type args = int\nF(*args, **kwargs)',
    'async def co3():\n    async with CM() as args:\n        F(*args, **kwargs)\n    async for kwargs in G(*args):\n        F(**kwargs)',
    'x = yield F(*args, **kwargs)\ny = yield from G(*args)',
    'F(*args, **kwargs)[args[0]:kwargs.get("n"):len(args)] = G(*args)',
    'del args[0], kwargs["k"], F(*args, **kwargs).attr',
    'if args and kwargs or not args:\n    F(*args, **kwargs)\nelif F(*args) is not G(**kwargs) in args < 1:\n    G(*args, **kwargs)',
    'global G1, G2\nnonl = 1\ndef inner():\n    nonlocal nonl, kwargs\n    kwargs = {}\nF(*args, **kwargs)',
    'import os.path, sys as kwargs\nfrom os import (path as args, sep)\nF(*args, **kwargs)',
]
HEADS = [
    ('def w(a, *args, **kwargs):', 'w'),
    ('def w(*args, **kwargs):', 'w'),
    ('def w(a, /, b=1, *args, c, **kwargs):', 'w'),
    ('def w(*args):', 'w'),
    ('def w(**kwargs):', 'w'),
    ('async def w(a, *args, **kwargs):', 'w'),
    ('class K:\n    def w(self, *args, **kwargs):', 'K().w'),
    ('class K:\n    @classmethod\n    def w(cls, *args, **kwargs):', 'K.w'),
    ('class K:\n    @staticmethod\n    def w(*args, **kwargs):', 'K.w'),
    ('def outer():\n    def w(*args, **kwargs):', 'outer()'),
    ('@functools.wraps(G)\ndef w(*args, **kwargs):', 'w'),
    ('@DECO2\n@DECO2\ndef w(a, *args, **kwargs):', 'w'),
    ('class K:\n    def w(*args, **kwargs):', 'K().w'),
    ('def w0(*args, **kwargs):\n    return w(*args, **kwargs)\ndef w(*args, **kwargs):', 'functools.partial(w0, 1, 2, 3)'),
    ('def w0(*args, **kwargs):\n    return w(*args, **kwargs)\ndef w(*args, **kwargs):', 'functools.partial(w0, zz9=3)'),
    ('class K:\n    def __init__(self, name):\n        pass\n    def __call__(self, *args, **kwargs):', 'K'),
    ('class K:\n    def __init__(self, name):\n        pass\n    def __call__(self, *args, **kwargs):', 'K("n")'),
    # partial objects binding a keyword spelled like one of the star parameters (it ends up in **kwargs)
    ('def w(*args, **kwargs):', 'functools.partial(w, args=(1, 2))'),
    ('def w(a, *args, **kwargs):', 'functools.partial(w, 1, kwargs=3, args=4)'),
    # a partial object inspect rejects (too many positionals for the forwarding function itself): same exception type
    ('def w0(c, **kwargs):\n    return c(**kwargs)\ndef w(*args, **kwargs):', 'functools.partial(w0, w, 1)'),
]
PRELUDE = ('import functools\n'
           'def F(x, y=2, *, z=3):\n    return 0\n'
           'def G(p, *rest, **more):\n    return 0\n'
           'def DECO(*a, **k):\n    return lambda f: f\n'
           'def DECO2(f):\n    return f\n'
           'class CM:\n    def __enter__(self): return ()\n    def __exit__(self, *a): return False\n'
           'class E(Exception):\n    pass\n'
           'G1 = None\n'
           'def PING(*a, **k):\n    return PONG(*a, **k)\n'
           'def PONG(*a, **k):\n    return PING(*a, **k)\n'
           'def NOARGS():\n    return 0\n'
           'NONE = None\nFIVE = 5\n'
           'class _BadIter:\n    def __iter__(self):\n        raise RuntimeError("only iterable later")\nBADITER = _BadIter()\n'
           'class _Prop:\n    @property\n    def boom(self):\n        raise RuntimeError("computed at run time only")\nPROP = _Prop()\n'
           'class _Eq:\n    def __eq__(self, other):\n        raise RuntimeError("compared")\n    __hash__ = object.__hash__\n'
           '    def __call__(self, x, y=2):\n        return 0\nEQ = _Eq()\n')
# compound statements a catalogue statement can be nested in ({} = the nested block, already indented by 4)
WRAPS = [
    'if len(args) >= 0:\n{}',
    'if not args:\n    pass\nelse:\n{}',
    'for _i in range(1):\n{}',
    'while True:\n{}\n    break',
    'try:\n{}\nfinally:\n    pass',
    'try:\n    pass\nexcept Exception:\n{}',
    'with CM():\n{}',
    'def _n():\n{}',
    'class _C:\n{}',
    'async def _a():\n{}',
    'match 1:\n    case _:\n{}',
    'def _n2(*args):\n{}',
    'def _n3(**kwargs):\n{}',
]
LAMBDAS = [
    'w = lambda *args, **kwargs: F(*args, **kwargs)',
    'w = (lambda a, *args, **kwargs:\n     F(*args, **kwargs))',
    'ws = [lambda *args, **kwargs: F(*args, **kwargs),\n      1]\nw = ws[0]',
    'w = DECO2(lambda *args, **kwargs: F(*args, **kwargs))',
    'def mk(key=lambda *args, **kwargs: F(*args, **kwargs)):\n    return key\nw = mk()',
    'class K:\n    w = lambda self, *args, **kwargs: F(*args, **kwargs)\nw = K().w',
    'w = lambda *args, **kwargs: (yield)',
    'w, v = (lambda *args: F(*args)), (lambda **kwargs: F(**kwargs))',
    'w = functools.partial(lambda a, *args, **kwargs: F(*args, **kwargs), 1)',
    'w = lambda *args, **kwargs: F(*args, **kwargs)\nw.__name__ = "renamed"\nw.__qualname__ = "renamed"',
    'w = functools.wraps(G)(lambda *args, **kwargs: F(*args, **kwargs))',
    'w = functools.update_wrapper(lambda a, *args, **kwargs: F(*args, **kwargs), G, assigned=("__name__", "__doc__"), updated=())',
]


def indent(text, n):
    return ''.join(l[1:] if l.startswith('\x01') else ' ' * n + l if l.strip() else l for l in text.splitlines(True))


def st_source():
    from hypothesis import strategies as st

    @st.composite
    def build(draw):
        if draw(st.integers(0, 7)) == 0:
            return {'kind': 'generated', 'lam': draw(st.integers(0, len(LAMBDAS) - 1)), 'register': draw(st.sampled_from([True, True, False]))}
        head = draw(st.integers(0, len(HEADS) - 1))
        idx = draw(st.lists(st.integers(0, len(STMTS) - 1), min_size=1, max_size=4))
        wraps = [draw(st.lists(st.integers(0, len(WRAPS) - 1), max_size=3)) if draw(st.integers(0, 2)) == 0 else [] for _ in idx]
        return {'kind': 'generated', 'head': head, 'stmts': idx, 'wraps': wraps, 'register': draw(st.sampled_from([True, True, True, False])),
                'future': draw(st.booleans()), 'stale': draw(st.sampled_from([0, 0, 0, 0, 1, 2, 3]))}
    return build()


def render(case):
    if 'lam' in case:
        return PRELUDE + LAMBDAS[case['lam']] + '\n', 'w'
    head, target = HEADS[case['head']]
    last = head.splitlines()[-1]
    depth = len(last) - len(last.lstrip()) + 4
    blocks = []
    for j, i in enumerate(case['stmts']):
        text = STMTS[i]
        for w in (case.get('wraps') or [[]] * (j + 1))[j]:
            text = WRAPS[w].format(indent(text + '\n', 4).rstrip('\n'))
        blocks.append(indent(text + '\n', depth))
    body = ''.join(blocks)
    src = ('from __future__ import annotations\n' if case.get('future') else '') + PRELUDE + head + '\n' + body
    if head.startswith('def outer'):
        src += '    return w\n'
    return src, target


def check_generated(case, stats):
    src, target = render(case)
    try:
        g = realfn.load(src, register=case.get('register', True))
    except SyntaxError as e:
        stats.cls('generated/syntax-error (not a case)')
        return
    try:
        try:
            obj = eval(target, g)
        except Exception as e:
            stats.cls('generated/definition-raises')
            return
        stale = case.get('stale', 0)
        if stale and case.get('register', True):
            # the file changed after it was imported: what is found at the function's lines is something else now
            import linecache
            fn = g['__verif_file__']
            old = linecache.cache[fn][2]
            new = {1: ['# changed on disk\n'] * len(old), 2: ["x = ('''\n"] * len(old), 3: ['    pass\n'] + old[:-1]}[stale]
            linecache.cache[fn] = (sum(map(len, new)), None, new, fn)
            stats.cls('generated/source-changed-after-import')
        stats.cls('generated/%s' % ('with-source' if case.get('register', True) else 'no-source'))
        if any(case.get('wraps') or ()):
            stats.cls('generated/statements-nested-%d-deep' % max(map(len, case['wraps'])))
        check_object('generated:' + target, obj, stats, dict(case, source=src), dotted=False, src=src)
    finally:
        realfn.unload(g)


class Untruthy(object):
    """Instances whose truth value cannot be taken (array-like, lazy containers)."""
    def __init__(self, how):
        self.how = how

    def __bool__(self):
        if self.how == 'bool':
            raise ValueError('the truth value of this object is ambiguous')
        return False

    def __len__(self):
        if self.how == 'len':
            raise RuntimeError('length not known yet')
        return 0

    def head(self, n=5):
        return n

    def fwd(self, *args, **kwargs):
        return self.head(*args, **kwargs)

    def __call__(self, a, *args, **kwargs):
        return self.head(*args, **kwargs)


class Hostile(object):
    """Objects whose attribute access misbehaves."""
    def __call__(self, a, *args, **kwargs):
        return 0

    def __getattr__(self, name):
        if name.startswith('__') or name.startswith('_sigtools'):
            raise AttributeError(name)
        raise RuntimeError('hostile attribute %s' % name)


def special_objects():
    import builtins
    import operator
    out = []
    for n in sorted(dir(builtins)):
        o = getattr(builtins, n)
        if callable(o):
            out.append(('builtins.' + n, o))
    for mod in (operator, itertools, functools, os, sys, types):
        for n in sorted(dir(mod)):
            if n.startswith('_'):
                continue
            o = getattr(mod, n)
            if callable(o):
                out.append(('%s.%s' % (mod.__name__, n), o))
    for how in ('bool', 'len', 'falsy'):
        u = Untruthy(how)
        out += [('Untruthy(%s).head' % how, u.head), ('Untruthy(%s).fwd' % how, u.fwd), ('Untruthy(%s)' % how, u),
                ('partial(Untruthy(%s).fwd, 1)' % how, functools.partial(u.fwd, 1))]
    out += [('str.join', str.join), ('"".join', ''.join), ('dict.fromkeys', dict.fromkeys), ('[].append', [].append),
            ('object()', object()), ('Hostile()', Hostile()), ('Hostile', Hostile), ('partial(print)', functools.partial(print, 1)),
            ('partial(int, base=2)', functools.partial(int, base=2)), ('partial(Hostile())', functools.partial(Hostile(), 1)),
            ('types.MethodType(print, 1)', types.MethodType(print, 1)), ('classmethod(len)', classmethod(len)),
            ('property()', property()), ('None', None), ('3', 3), ('NotImplemented', NotImplemented)]
    # the as_forged pattern with a forger set on the instance itself
    from sigtools import specifiers

    def _fwd_target(a, b, c):
        return 0

    class SelfForged(object):
        __signature__ = specifiers.as_forged

        def __init__(self):
            specifiers.forwards_to_function(_fwd_target)(self)

        def __call__(self, x, *args, **kwargs):
            return _fwd_target(*args, **kwargs)
    out += [('SelfForged()', SelfForged())]

    # a class that declares where its constructor forwards to: the declaration is the class's, its instances are callables of
    # their own (through __call__) -- with and without a subclass in between
    @specifiers.forwards_to_function(_fwd_target)
    class ForgedClass(object):
        def __init__(self, first, *args, **kwargs):
            _fwd_target(*args, **kwargs)

        def __call__(self, q, r=2):
            return q

    class ForgedSubclass(ForgedClass):
        pass
    out += [('ForgedClass', ForgedClass), ('ForgedClass(...)', ForgedClass(0, 1, 2, 3)), ('ForgedSubclass(...)', ForgedSubclass(0, 1, 2, 3)),
            ('partial(ForgedClass(...), 1)', functools.partial(ForgedClass(0, 1, 2, 3), 1))]

    # forwards_to_super written above a modifiers decorator
    from sigtools import modifiers

    class SuperBase(object):
        def m(self, a, j=1):
            return 0

    class SuperOverModifiers(SuperBase):
        @specifiers.forwards_to_super()
        @modifiers.kwoargs('k')
        def m(self, x, k=2, *args, **kwargs):
            return super().m(*args, **kwargs)
    out += [('SuperOverModifiers().m', SuperOverModifiers().m)]

    # a callable that defines __eq__ without __hash__ (what @dataclass gives by default)
    class Unhashable(object):
        def __init__(self, name):
            self.name = name

        def __eq__(self, other):
            return isinstance(other, Unhashable) and other.name == self.name
        __hash__ = None

        def __call__(self, a, *args, **kwargs):
            return _fwd_target(*args, **kwargs)
    out += [('Unhashable()', Unhashable('x')), ('partial(Unhashable(), 1)', functools.partial(Unhashable('x'), 1))]
    from unittest import mock
    out += [('mock.Mock()', mock.Mock()), ('mock.MagicMock()', mock.MagicMock()), ('mock.NonCallableMock()', mock.NonCallableMock()),
            ('mock.call', mock.call), ('mock.ANY', mock.ANY),
            ('mock.create_autospec(f)', mock.create_autospec(lambda a, b=1: 0)), ('mock.Mock().method', mock.Mock().method)]
    return out


def check_unhonourable(stats):
    """An explicit forwards_to_* declaration that cannot be honoured surfaces as ValueError (and only as that)."""
    import sigtools
    from sigtools import specifiers

    def inner(a, b):
        return 0

    class K(object):
        @specifiers.forwards_to_method('nope')
        def missing(self, *args, **kwargs):
            return 0

        @specifiers.forwards_to_method('nope.deeper')
        def missing_deep(self, *args, **kwargs):
            return 0

        @specifiers.forwards_to_function(inner, 5)
        def too_many(self, *args, **kwargs):
            return 0

        @specifiers.forwards_to_function(inner, 0, 'zz')
        def unknown_name(self, *args, **kwargs):
            return 0
    k = K()
    for name in ('missing', 'missing_deep', 'too_many', 'unknown_name'):
        for label, getter in (('sigtools.signature', sigtools.signature), ('sigtools.signature(auto=False)', lambda o: sigtools.signature(o, auto=False))):
            stats.case()
            stats.cls('special/unhonourable-declaration')
            try:
                r = getter(getattr(k, name))
                out = 'returned %s' % r
            except ValueError:
                stats.nontriv(('unhonourable', name, label))
                continue
            except Exception as e:
                out = 'raised %s: %s' % (type(e).__name__, e)
            stats.fail('C07/unhonourable-declaration/%s' % name, {'kind': 'special', 'object': 'unhonourable:' + name},
                       '%s of a method whose forwards_to_* declaration cannot be honoured (%s) %s; expected ValueError' % (label, name, out))


def shard_special(arg):
    st = Stats()
    for qual, obj in special_objects():
        check_object(qual, obj, st, {'kind': 'special', 'object': qual})
    check_unhonourable(st)
    return st



SPHINX_SRC = """from __future__ import annotations
import typing
def undefined_name(a: Undefined, *args, **kwargs) -> Undefined2:
    return 0
def type_error(a: int | "Port", b: typing.Optional[float, int] = None):
    return 0
def zero_division(a: 1 / 0):
    return 0
def attribute_error(a: typing.NoSuchThing) -> typing.List[int]:
    return 0
def fine(a: int, *, b: typing.List[str] = ()) -> typing.Dict[str, int]:
    return 0
def forwards(c, *args, **kwargs) -> Undefined:
    return undefined_name(*args, **kwargs)
class K:
    def method(self, a: Undefined) -> K:
        return self
    @classmethod
    def cm(cls, a: int | "x") -> None:
        return None
    @staticmethod
    def sm(a: Undefined = None):
        return None
    def __call__(self, a: Undefined):
        return None
instance = K()
Alias = int
def rebound(a: Alias, b: Alias = None) -> Alias:
    return 0
from sigtools import specifiers as _sp
class Members:
    def me(self, p, q=1):
        return 0
    @staticmethod
    def st(p, q=1):
        return 0
    @classmethod
    def cl(cls, p, q=1):
        return 0
    @_sp.forwards_to_method('me')
    def fw(self, a, *args, **kwargs):
        return self.me(*args, **kwargs)
    @_sp.forwards_to_method('me', emulate=True)
    def fwe(self, a, *args, **kwargs):
        return self.me(*args, **kwargs)
class SubMembers(Members):
    pass
"""
# what the hook must print for members whose signature involves nothing that could fail
SPHINX_EXPECT = {'Members.me': '(p, q=1)', 'Members.st': '(p, q=1)', 'Members.cl': '(p, q=1)',
                 'SubMembers.me': '(p, q=1)', 'SubMembers.st': '(p, q=1)', 'SubMembers.cl': '(p, q=1)'}


def shard_sphinx_module(arg):
    """A synthetic importable module whose annotations cannot all be evaluated."""
    st = Stats()
    import types as _types
    name = 'verif_sphinx_case'
    mod = _types.ModuleType(name)
    mod.__file__ = '<verif-sphinx>'
    import linecache
    linecache.cache['<verif-sphinx>'] = (len(SPHINX_SRC), None, SPHINX_SRC.splitlines(True), '<verif-sphinx>')
    exec(compile(SPHINX_SRC, '<verif-sphinx>', 'exec'), mod.__dict__)
    sys.modules[name] = mod
    try:
        # a module is documented under its bare name (no dot)
        st.cls('sphinx-synthetic')
        check_sphinx(name, mod, st, {'kind': 'sphinx', 'object': '<module>'})
        check_sphinx('os', os, st, {'kind': 'sphinx', 'object': 'os'})
        for qual in ('undefined_name', 'type_error', 'zero_division', 'attribute_error', 'fine', 'forwards', 'K', 'K.method', 'K.cm',
                     'K.sm', 'K.__call__', 'instance', 'instance.method', 'no_such_attribute', 'Members', 'Members.me', 'Members.st',
                     'Members.cl', 'Members.fw', 'Members.fwe', 'SubMembers.me', 'SubMembers.st', 'SubMembers.cl', 'SubMembers.fw'):
            obj = mod
            try:
                for a in qual.split('.'):
                    obj = getattr(obj, a)
            except AttributeError:
                obj = None
            st.cls('sphinx-synthetic')
            st.nontriv(('sphinx', qual))
            check_sphinx(name + '.' + qual, obj, st, {'kind': 'sphinx', 'object': qual})
        # the module is executed again in place with another binding (importlib.reload): the new function objects are
        # documented with what their annotations denote now
        ext = _sphinx.get('mod')
        if ext is not None:
            seen = []
            for binding in ('int', 'str', 'int', 'float'):
                exec(compile(SPHINX_SRC.replace('Alias = int', 'Alias = ' + binding), '<verif-sphinx>', 'exec'), mod.__dict__)
                st.case()
                try:
                    out = ext.process_signature(None, 'function', name + '.rebound', mod.rebound, {}, '<in-sig>', '<in-ret>')
                except Exception as e:
                    st.fail('C07/sphinx-hook-raised/%s' % frame_bucket(e), {'kind': 'sphinx', 'object': 'rebound'},
                            'sphinxext.process_signature(rebound) raised %s: %s' % (type(e).__name__, e))
                    break
                seen.append(out[0])
                want = '(a: {0}, b: {0} = None)'.format(binding)
                if out[0] != want:
                    st.fail('C07/sphinx-hook-string/after-reload', {'kind': 'sphinx', 'object': 'rebound'},
                            'module executed again in place with Alias = %s: process_signature(rebound)[0] = %r, expected %r (sequence so far %r)' % (
                                binding, out[0], want, seen))
                    break
            st.nontriv(('sphinx', 'rebound-after-reload'))
    finally:
        sys.modules.pop(name, None)
    return st


def shard_hyp(arg):
    seed, n = arg
    st = Stats()
    hyp_search(st_source(), check_generated, st, n, seed)
    return st


def shard_catalogue(arg):
    """Every head x every single statement (exhaustive over the catalogue)."""
    items, = arg
    st = Stats()
    for case in items:
        check_generated(case, st)
    return st


def run(ctx):
    total = Stats()
    names = module_names(ctx)
    picked = ctx.stride(names, ctx.pick(1.0, 1.0))
    total.merge(ctx.pmap(shard_corpus, [(picked[i::48],) for i in range(48) if picked[i::48]]))
    total.extra['modules_listed'] = len(names)
    total.extra['modules_picked'] = len(picked)
    total.merge(ctx.pmap(shard_special, [0]))
    total.merge(ctx.pmap(shard_sphinx_module, [0]))
    cat = [{'kind': 'generated', 'head': h, 'stmts': [s], 'register': reg, 'future': False}
           for h in range(len(HEADS)) for s in range(len(STMTS)) for reg in (True, False)]
    cat += [{'kind': 'generated', 'lam': i, 'register': reg} for i in range(len(LAMBDAS)) for reg in (True, False)]
    cat = ctx.stride(cat, ctx.pick(0.5, 1.0))
    total.merge(ctx.pmap(shard_catalogue, [(cat[i::16],) for i in range(16) if cat[i::16]]))
    if not ctx.quick:
        total.exhaustive['generated: every head x every single catalogue statement x source available or not'] = len(cat)
    n = ctx.pick(1600, 32000)
    total.merge(ctx.pmap(shard_hyp, [(s, n // 16) for s in ctx.shard_seeds(16)]))
    return total


def replay(case, stats):
    if case.get('kind') == 'generated':
        c = dict(case)
        c.pop('source', None)
        check_generated(c, stats)
    elif case.get('kind') == 'sphinx':
        stats.merge(shard_sphinx_module(0))
    elif case.get('kind') == 'special' and str(case.get('object', '')).startswith('unhonourable:'):
        check_unhonourable(stats)
    elif case.get('kind') == 'special':
        for qual, obj in special_objects():
            if qual == case['object']:
                check_object(qual, obj, stats, case)
    else:
        qual = case['object']
        parts = qual.split('.')
        for i in range(len(parts) - 1, 0, -1):
            try:
                obj = importlib.import_module('.'.join(parts[:i]))
            except ImportError:
                continue
            for a in parts[i:]:
                obj = getattr(obj, a)
            check_object(qual, obj, stats, case, dotted=True)
            return
