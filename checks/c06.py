"""C06 -- automatic discovery agrees with the equivalent explicit declaration.

Same program space as C05 (vlib/progs.py).  Oracle 1 (differential): the signature and the
provenance discovered from source equal the value computed from the generator's ground
truth with the public algebra only (vlib/expect.py): forwards(def-side signature,
sigtools.signature(callee, known arguments), n, *names, use_*/hide_* flags, partial) per
written call, merged over the calls, masked for bound methods / partial objects; the plain
signature when no call forwards a star, the callee cannot be resolved or a step raises
ValueError.  Oracle 2 (metamorphic): rewriting the program in semantically irrelevant ways
(other statement contexts, decoy statements, a pass-through decorator) does not change the
outcome (parameters; provenance compared through callable labels).
"""
import copy

from vlib import expect, progs, universe
from vlib.framework import Stats, hyp_search
from vlib.universe import Par, PO, POK, VP, KWO, VK

LEVEL = 'exploration'
RULE = ('non-trivial: the ground truth expects a forwarded signature that differs from the plain one (oracle 1), or the '
        'metamorphic variant differs from the base program in context / decoys / decoration (oracle 2); distinct by program skeleton')
ASSUMPTIONS = ['ground truth per written call follows docs/forwards-howto.rst (table in DESIGN.md 2/C06)',
               'the callee signature is sigtools.signature(callee, args, kwargs) with unknown values of the written count/names '
               '(chains are sound by induction: every callee shape is itself a generated top-level program)',
               'for calls in nested scopes taints are only generated before the nested definition']


def compare(R, X, b, stats, case, tag):
    """R: discovered, X: Expect (a list of admissible signatures).  True when R is one of them."""
    prog = b.prog
    got = expect.param_list(R)
    gn, gd = expect.sources_view(R)
    worst = None
    for alt in X.sig:
        want = expect.param_list(alt)
        if got != want:
            worst = worst or ('parameters', alt)
            continue
        wn, wd = expect.sources_view(alt)
        is_plain = X.kind == 'plain' or (X.kind == 'either' and alt is X.sig[-1])
        if prog['route'] in ('param', 'param_shadow_lambda', 'param_shadow_kwonly', 'param_default') and not is_plain:
            wd = dict((f, d + 1) for f, d in wd.items())
            wd[expect.ident(b.target)] = 0
        if gn != wn:
            worst = ('sources', alt)
            continue
        if gd != wd:
            if worst is None or worst[0] == 'parameters':
                worst = ('depths', alt)
            continue
        return True
    what, alt = worst
    head = 'sigtools.signature(TARGET) = %s, expected (%s) %s [%s]' % (R, X.kind, ' or '.join(str(a) for a in X.sig), X.why)
    if what == 'parameters':
        stats.fail('C06/%s/parameters/expected-%s' % (tag, X.kind), case, head + '\n' + b.src)
    elif what == 'sources':
        lab = lambda sig: dict((k, [expect.label(f) for f in v]) for k, v in sig.sources.items() if k != '+depths')
        stats.fail('C06/%s/sources/expected-%s' % (tag, X.kind), case,
                   head + '\nsources: got %r, closest expectation %r\n%s' % (lab(R), lab(alt), b.src))
    else:
        lab = lambda sig: dict((expect.label(f), d) for f, d in sig.sources['+depths'].items())
        stats.fail('C06/%s/depths/expected-%s' % (tag, X.kind), case,
                   head + '\ndepths: got %r, expected %r%s\n%s' % (lab(R), lab(alt), ' (+1 and the partial object at 0)' if prog['route'] in ('param', 'param_shadow_lambda', 'param_shadow_kwonly', 'param_default') else '', b.src))
    return False


def variant(prog, k):
    """A semantically equivalent rewrite of the program."""
    v = copy.deepcopy(prog)
    nested = any(c['ctx'] in progs.NESTED_CTXS for c in prog['calls'])
    rebinding = ('comp_rebinds_args', 'comp_rebinds_kwargs', 'genexp_rebinds_args', 'genexp_rebinds_kwargs', 'loop_rebinds_args', 'loop_rebinds_kwargs', 'comploop_mutates_kwargs')      # these contexts change what the star denotes
    flat = [c for c in progs.CTXS if c not in progs.NESTED_CTXS and c != 'lambda_default' and c not in rebinding]
    for i, c in enumerate(v['calls']):
        if c['ctx'] in rebinding:
            continue
        if c['ctx'] in progs.NESTED_CTXS:
            # stay nested (the taint rule differs between nested and top-level calls)
            c['ctx'] = progs.NESTED_CTXS[(progs.NESTED_CTXS.index(c['ctx']) + 1 + k) % len(progs.NESTED_CTXS)]
        elif c['ctx'] == 'lambda_default':
            c['ctx'] = flat[(i + k) % len(flat)]
        else:
            c['ctx'] = flat[(flat.index(c['ctx']) + 1 + k + i) % len(flat)]
    v['decoys'] = (prog['decoys'] + 1 + k) % 3
    if v['deco'] in ('none', 'passthrough'):
        v['deco'] = 'passthrough' if v['deco'] == 'none' else 'none'
    return progs.normalise(v)


def label_view(sig):
    names = dict((k, [expect.label(f) for f in v]) for k, v in sig.sources.items() if k != '+depths')
    depths = sorted((expect.label(f), d) for f, d in sig.sources['+depths'].items())
    return names, depths


def check_prog(prog, stats):
    import sigtools
    from sigtools import signatures, specifiers
    specifiers.as_forged.currently_computing.clear()
    stats.case()
    b = progs.build(prog)
    case = {'prog': prog}
    try:
        try:
            if prog.get('decoys') == 1 and b.prime_with_failure():
                stats.cls('retrieved-once-before-the-callees-existed')
            R = sigtools.signature(b.target)
        except Exception as e:
            stats.fail('C06/retrieval-raised/%s' % type(e).__name__, case, 'sigtools.signature(TARGET) raised %s: %s for\n%s' % (type(e).__name__, e, b.src))
            return
        X = expect.expected(b)
        P = signatures.signature(b.target)
        stats.cls('expected/%s/%s' % (X.kind, prog['route']))
        ok = compare(R, X, b, stats, case, 'declaration')
        interesting = X.kind != 'plain' and expect.param_list(X.sig[0]) != expect.param_list(P)
        if ok:
            stats.cls('agree/%s' % X.kind)
            if interesting:
                stats.nontriv(progs.skeleton(prog))
                stats.sample('agree/forwarded/' + prog['route'], {'source': b.src.split('def OTHER')[1].split('\n', 2)[2],
                                                                  'reported': str(R), 'expected_why': X.why})
            elif X.kind == 'plain':
                stats.sample('agree/plain/' + prog['route'], {'source': b.src.split('def OTHER')[1].split('\n', 2)[2],
                                                              'reported': str(R), 'expected_why': X.why})
        for t in prog['taints']:
            stats.cls('taint/%s/%s' % (t['name'], t['where']))
        # ---------------------------------------------------------------- oracle 2
        base_view = (expect.param_list(R), label_view(R))
        # the order in which several calls are merged is not fixed (and the walker looks at calls in nested
        # scopes last): a rewrite may land on another admissible alternative of the same expectation
        admissible = [base_view]
        for a in X.sig:
            names, depths = label_view(a)
            is_plain = X.kind == 'plain' or (X.kind == 'either' and a is X.sig[-1])
            if prog['route'] in ('param', 'param_shadow_lambda', 'param_shadow_kwonly', 'param_default') and not is_plain:
                # through the partial object: one level deeper, the partial object itself at 0
                depths = sorted([(l, d + 1) for l, d in depths] + [(expect.label(b.target), 0)])
            admissible.append((expect.param_list(a), (names, depths)))
        for k in range(2):
            v = variant(prog, k)
            if v == prog:
                continue
            stats.case()
            bv = progs.build(v)
            try:
                try:
                    Rv = sigtools.signature(bv.target)
                except Exception as e:
                    stats.fail('C06/variant-retrieval-raised/%s' % type(e).__name__, {'prog': v}, 'sigtools.signature raised %s: %s for\n%s' % (type(e).__name__, e, bv.src))
                    continue
                vv = (expect.param_list(Rv), label_view(Rv))
                # depth maps do not depend on the merge order (and are shifted for partial objects): taken from the base
                if any(vv[0] == a[0] and vv[1][0] == a[1][0] and vv[1][1] in (a[1][1], base_view[1][1]) for a in admissible):
                    stats.cls('metamorphic/equal')
                    if interesting:
                        stats.nontriv(('variant', k) + progs.skeleton(prog))
                elif vv[0] != base_view[0]:
                    stats.fail('C06/metamorphic/parameters', {'prog': prog, 'variant': v},
                               'base program reports %s, the equivalent rewrite reports %s\n--- base\n%s\n--- rewrite\n%s' % (R, Rv, b.src.split('def OTHER')[1], bv.src.split('def OTHER')[1]))
                elif vv[1] != base_view[1]:
                    stats.fail('C06/metamorphic/sources', {'prog': prog, 'variant': v},
                               'base program and rewrite report %s but provenance differs: %r vs %r\n--- base\n%s\n--- rewrite\n%s' % (
                                   R, base_view[1], vv[1], b.src.split('def OTHER')[1], bv.src.split('def OTHER')[1]))
                else:
                    stats.cls('metamorphic/equal')
                    if interesting:
                        stats.nontriv(('variant', k) + progs.skeleton(prog))
            finally:
                bv.close()
    finally:
        b.close()


def shard_hyp(arg):
    seed, n, kw = arg
    st = Stats()
    hyp_search(progs.st_program(**kw), check_prog, st, n, seed)
    return st


def run(ctx):
    total = Stats()
    n = ctx.pick(3200, 64000)
    tasks = [(s + 100, n // 32, {}) for s in ctx.shard_seeds(16)]
    tasks += [(s + 300, n // 64, {'routes': ('global', 'closure', 'attr', 'self_method', 'param'), 'allow_taints': False})
              for s in ctx.shard_seeds(16)]
    tasks += [(s + 400, n // 64, {'routes': ('global', 'self_attr', 'partial_inner'), 'max_calls': 1})
              for s in ctx.shard_seeds(16)]
    # nested scopes and default-value positions (calls the walker defers or could overlook)
    tasks += [(s + 900, n // 64, {'ctxs': progs.NESTED_CTXS + ('lambda_default', 'return'), 'allow_taints': False,
                                  'routes': ('global', 'closure', 'param', 'self_method', 'attr')})
              for s in ctx.shard_seeds(16)]
    # nested scopes with taint statements between the definition and the call of the nested function
    tasks += [(s + 1100, n // 64, {'ctxs': progs.NESTED_CTXS, 'routes': ('global', 'closure', 'self_method', 'attr'), 'max_calls': 2})
              for s in ctx.shard_seeds(16)]
    # several calls through one generic helper that is handed the callee (positionally or by keyword), callees that go
    # through the same helper themselves
    tasks += [(s + 1300, n // 64, {'routes': ('via_helper', 'via_helper_kw'), 'allow_taints': False, 'ctxs': ('return', 'assign', 'if', 'nested')})
              for s in ctx.shard_seeds(16)]
    total.merge(ctx.pmap(shard_hyp, tasks))
    return total


def replay(case, stats):
    check_prog(case['prog'], stats)
