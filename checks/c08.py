"""C08 -- parameter provenance is complete, truthful and depth-ordered.

Invariant over every signature returned by sigtools.signature, signatures.signature, merge, embed,
mask, forwards:
  (i)   set(sig.sources) - {'+depths'} == set(sig.parameters)   (the documented loop cannot KeyError)
  (ii)  every entry is a non-empty duplicate-free list; every listed callable has a depth and its own
        signature declares a parameter of that name
  (iii) merge/embed/forwards on role-consistent inputs: for a non-star parameter the entry is exactly the
        input callables that declare that name, in input order
  (iv)  depths: the outermost callable has depth 0; depth strictly increases along every forwarding
        chain; a callable reached twice keeps the smallest depth; every depth key is referenced by some
        parameter or is an input of the operation
  (v)   modifiers: the wrapper object replaces the wrapped function in both maps, never both present."""
import functools
import itertools

from vlib import cpbind, realfn, universe
from vlib.framework import Stats, hyp_search
from vlib.universe import Par, PO, POK, VP, KWO, VK
from checks import c15

from vlib import expect

LEVEL = 'exploration'
RULE = ('Results of merge (pairs, triples) / embed (all use_* flags, inner star parameters spelled like the outer\'s included) / '
        'mask / forwards over the <=2-named universe (thorough: all ordered pairs for merge and embed; quick: stride), of '
        'signatures.signature on partial objects, of sigtools.signature on generated forwarding chains (depth 1..3, one or two '
        'calls, functions/methods/partials, functools.wraps) and modifiers-wrapped callables, and of a fixed list of standard '
        'library callables. Non-trivial = the result has parameters from >=2 distinct callables; distinct by (operation, inputs).')
ASSUMPTIONS = ['"declares a parameter of that name" is decided by signatures.signature(callable) (for partial objects: the partial\'s own signature)']


def code_names(code):
    n = code.co_argcount + code.co_kwonlyargcount + bool(code.co_flags & 4) + bool(code.co_flags & 8)
    return set(code.co_varnames[:n])


def declared_names(f, _cache={}):
    """Names the callable declares: the parameters of its own def (functions, methods) together with
    those it advertises through signatures.signature (which follows __wrapped__ / __signature__).
    A functools.wraps-decorated wrapper legitimately stands for both."""
    import types
    from sigtools import signatures
    own = set()
    if isinstance(f, types.FunctionType):
        own = code_names(f.__code__)
    elif isinstance(f, types.MethodType) and isinstance(f.__func__, types.FunctionType):
        own = code_names(f.__func__.__code__)
    k = id(f)
    r = _cache.get(k)
    if r is not None and r[0] is f:
        return r[1]
    try:
        names = set(signatures.signature(f).parameters) | own
    except (ValueError, TypeError):
        names = own or None
    if len(_cache) > 5000:
        _cache.clear()
    _cache[k] = (f, names)
    return names


def check_wellformed(sig, stats, case, desc, where, multi_call=False, inconsistent=False):
    """(i), (ii) and the depth-key part of (iv). Returns True if the map is usable."""
    src = sig.sources
    keys = set(src) - {'+depths'}
    params = set(sig.parameters)
    ok = True
    if keys != params:
        ok = False
        missing = sorted(params - keys)
        extra = sorted(keys - params)
        kinds = sorted(set(int(sig.parameters[n].kind) for n in missing))
        stats.fail('C08/%s/keys-%s' % (where, 'missing' if missing else 'extra'), case,
                   '%s -> %s: sources lacks %s and has stale %s (kinds of missing: %s)' % (desc, sig, missing, extra, kinds))
    depths = src.get('+depths')
    if not isinstance(depths, dict):
        stats.fail('C08/%s/no-depths' % where, case, '%s -> %s: no +depths map' % (desc, sig))
        return False
    referenced = set()
    for name in keys & params:
        lst = src[name]
        if not isinstance(lst, list) or not lst:
            ok = False
            stats.fail('C08/%s/empty-entry' % where, case, '%s -> %s: sources[%r] = %r' % (desc, sig, name, lst))
            continue
        if len(set(map(id, lst))) != len(lst):
            ok = False
            # known finding F14: merging the signatures of two forwarding calls concatenates the lists, so a
            # callable that contributes through both calls is listed once per call
            tag = '/callable-reached-through-two-forwarding-calls' if multi_call else \
                '/role-inconsistent-inputs' if inconsistent else ''
            stats.fail('C08/%s/duplicate-in-entry%s' % (where, tag), case, '%s -> %s: sources[%r] lists a callable twice: %r' % (desc, sig, name, lst))
        for f in lst:
            referenced.add(id(f))
            try:
                has_depth = f in depths
            except TypeError:
                has_depth = False
            if not has_depth:
                ok = False
                stats.fail('C08/%s/no-depth-for-source' % where, case, '%s -> %s: %r listed for %r has no depth' % (desc, sig, f, name))
            dn = declared_names(f)
            if dn is not None and name not in dn:
                ok = False
                stats.fail('C08/%s/source-does-not-declare' % where, case, '%s -> %s: %r is listed for %r but declares only %s' % (desc, sig, f, name, sorted(dn)))
    for f, d in depths.items():
        if not isinstance(d, int) or d < 0:
            stats.fail('C08/%s/bad-depth' % where, case, '%s -> %s: depth of %r is %r' % (desc, sig, f, d))
    if depths and min(depths.values()) != 0:
        stats.fail('C08/%s/no-depth-zero' % where, case, '%s -> %s: smallest depth is %r' % (desc, sig, min(depths.values())))
    return ok, referenced


def check_algebra(op, specs, args, stats, enum=False):
    stats.case()
    sigs = [realfn.sig_of(s, 'f%d' % i) for i, s in enumerate(specs)]
    funcs = [realfn.plain_function(s, 'f%d' % i) for i, s in enumerate(specs)]
    r, exc = c15.apply_op(op, sigs, args)
    if r is None:
        stats.cls('%s/raised' % op)
        return
    case = {'kind': 'algebra', 'op': op, 'specs': [list(map(list, s)) for s in specs], 'args': args}
    desc = c15.describe(op, specs, args)
    views = [universe.spec_view(s) for s in specs]
    cons = cpbind.role_consistent(views)
    stats.cls('%s/%s' % (op, 'consistent' if cons else 'inconsistent'))
    res = check_wellformed(r, stats, case, desc, op, inconsistent=not cons)
    if res is False:
        return
    ok, referenced = res
    src = r.sources
    depths = src['+depths']
    contributing = set()
    for n in r.parameters:
        contributing.update(id(f) for f in src.get(n, ()))
    if len(contributing) >= 2:
        if enum:
            stats.nontriv_enum()
        else:
            stats.nontriv((op, [universe.spec_text(s) for s in specs], args))
        stats.sample(op, {'call': desc, 'result': str(r), 'sources': {k: [getattr(f, '__name__', repr(f)) for f in v] for k, v in src.items() if k != '+depths'},
                          'depths': {getattr(f, '__name__', repr(f)): d for f, d in depths.items()}})
    # (iv) every depth key is an input or referenced
    for f in depths:
        if id(f) not in referenced and not any(f is g for g in funcs):
            stats.fail('C08/%s/stray-depth-key' % op, case, '%s -> %s: +depths has %r which is neither an input nor referenced' % (desc, r, f))
    # expected depths of the inputs
    if op == 'merge':
        exp_depth = {id(f): 0 for f in funcs}
    elif op == 'embed':
        exp_depth = {id(f): i for i, f in enumerate(funcs)}
    elif op == 'forwards':
        exp_depth = {id(funcs[0]): 0, id(funcs[1]): 1}
    else:
        exp_depth = {id(funcs[0]): 0}
    for f in funcs:
        if f in depths and depths[f] != exp_depth[id(f)]:
            stats.fail('C08/%s/input-depth' % op, case, '%s -> %s: depth of input %s is %r, expected %d' % (desc, r, f.__name__, depths[f], exp_depth[id(f)]))
    # (iii) exact contributors on consistent inputs
    if cons and op in ('merge', 'embed', 'forwards') and ok:
        masked = set()
        if op == 'forwards':
            # parameters of the inner signature consumed by the call are not contributed
            inner_view = views[1]
            pos = [n for n, k, d in inner_view if k in (PO, POK)]
            fl = args.get('flags', {})
            # (a name consumes the inner parameter it can be passed to by keyword; spelled like a positional-only one it
            # ends up in **kwargs and that parameter stays)
            masked |= set(pos[:args.get('n', 0)]) | set(x for x in args.get('names', ()) if any(n == x and k in (POK, KWO) for n, k, d in inner_view))
        for n, p in r.parameters.items():
            if p.kind in (p.VAR_POSITIONAL, p.VAR_KEYWORD):
                continue
            want = [f for f, v in zip(funcs, views) if any(x == n and k not in (VP, VK) for x, k, d in v)]
            if op == 'forwards' and n in masked:
                want = [f for f in want if f is funcs[0]]
            if op == 'forwards' and (args.get('flags', {}).get('hide_args') or args.get('flags', {}).get('hide_kwargs')):
                continue
            got = src[n]
            if op in ('embed', 'forwards'):
                # embed never merges same-named parameters (it raises): a result parameter comes from exactly
                # one input -- the outer one if it declares the name (an inner namesake was dropped, not merged)
                want = [f for f in want if f is funcs[0]] or want
                if len(got) == 1 and any(got[0] is f for f in want):
                    continue
            if [id(f) for f in got] != [id(f) for f in want]:
                # positional parameters merged under different names are attributed to the left input only
                stats.fail('C08/%s/contributors' % op, case, '%s -> %s: sources[%r] = %s, inputs declaring it: %s' % (
                    desc, r, n, [f.__name__ for f in got], [f.__name__ for f in want]))


# ----------------------------------------------------------------------- enumerations

def shard_merge(arg):
    idxs, = arg
    c15._init()
    st = Stats()
    U = c15._U2
    for i in idxs:
        for b in U:
            check_algebra('merge', (U[i], b), {}, st, True)
    return st


def shard_embed(arg):
    idxs, = arg
    c15._init()
    st = Stats()
    # inner parameters spelled like the outer's star parameters without being the matching star
    crossed = [(Par('args', POK),), (Par('args', POK), Par('kwargs', POK, '1')), (Par('kwargs', KWO),), (Par('x', POK), Par('args', KWO, '1')),
               (Par('kwargs', VP), Par('args', VK)), (Par('args', PO), Par('kwargs', VK))]
    for i in idxs:
        for si in c15._INN:
            for uva, uvk in c15.FLAGS2:
                check_algebra('embed', (c15._OUT[i], si), {'use_varargs': uva, 'use_varkwargs': uvk}, st, True)
        for si in crossed:
            for uva, uvk in c15.FLAGS2:
                check_algebra('embed', (c15._OUT[i], si), {'use_varargs': uva, 'use_varkwargs': uvk}, st, True)
                check_algebra('forwards', (c15._OUT[i], si), {'n': 0, 'names': [], 'flags': {'use_varargs': uva, 'use_varkwargs': uvk}}, st, True)
    return st


def check_same_twice(spec, stats):
    """merge(s, s): one callable contributes through both operands and is still listed once."""
    from sigtools import signatures
    stats.case()
    s = realfn.sig_of(spec, 'f0')
    try:
        r = signatures.merge(s, s)
    except ValueError:
        return
    case = {'kind': 'same-twice', 'spec': list(map(list, spec))}
    src = r.sources
    for name, lst in src.items():
        if name != '+depths' and len(set(map(id, lst))) != len(lst):
            stats.fail('C08/merge/duplicate-in-entry/same-input-twice', case,
                       'merge(s, s) for s=(%s): sources[%r] lists a callable twice: %r' % (universe.spec_text(spec), name, lst))
            return


def shard_misc(arg):
    start, step, count = arg
    c15._init()
    st = Stats()
    U = c15._U2
    n = len(U)
    x = start
    for i in range(0, n, max(1, n // 40)):
        check_same_twice(U[(i + start) % n], st)
    for c in range(count):
        x = (x + step) % (n * n)
        i, j = divmod(x, n)
        a, b = U[i], U[j]
        y = (x * 2654435761 + c) & 0xffffffff
        which = y % 4
        y >>= 2
        if which == 0:
            check_algebra('merge', (a, b, U[(x // 7) % n]), {}, st)
        elif which == 1:
            cand = [p.name for p in a if p.kind in (POK, KWO)] + ['q']
            names = [cand[(y >> 4) % len(cand)]][: (y >> 2) % 2]
            fl = {k: bool((y >> (12 + b_)) & 1) and (y >> 20) % 3 == 0 for b_, k in enumerate(c15.MASK_FLAGS)}
            check_algebra('mask', (a,), {'n': (y >> 16) % (len(a) + 1), 'names': names, 'flags': fl}, st)
        elif which == 2:
            cand = [p.name for p in b if p.kind in (POK, KWO)] + ['q']
            names = [cand[(y >> 4) % len(cand)]][: (y >> 2) % 2]
            fl = {k: bool((y >> (12 + b_)) & 1) for b_, k in enumerate(('use_varargs', 'use_varkwargs'))}
            fl['partial'] = (y >> 22) % 4 == 0
            check_algebra('forwards', (a, b), {'n': (y >> 18) % (len(b) + 1), 'names': names, 'flags': fl}, st)
        else:
            check_algebra('embed', (a, b, U[(x // 11) % n]), {'use_varargs': True, 'use_varkwargs': True}, st)
    return st


# ----------------------------------------------------------------------- retrieval

CHAIN_TEMPLATES = [
    # (name, source template, target expression, expected chain of object names outermost first)
    ('fn-chain', '''
def c3({inner}): return 0
def c2({mid}*args, **kwargs): return c3(*args, **kwargs)
def c1({outer}*args, **kwargs): return c2(*args, **kwargs)
''', 'c1', ['c1', 'c2', 'c3']),
    ('two-calls', '''
def c3({inner}): return 0
def c2({inner}): return 0
def c1({outer}*args, **kwargs):
    if FLAG:
        return c2(*args, **kwargs)
    return c3(*args, **kwargs)
FLAG = True
''', 'c1', None),
    ('diamond', '''
def c3({inner}): return 0
def c2({mid}*args, **kwargs): return c3(*args, **kwargs)
def c1({outer}*args, **kwargs):
    if FLAG:
        return c2({midargs}*args, **kwargs)
    return c3(*args, **kwargs)
FLAG = True
''', 'c1', None),
    ('method-chain', '''
class K(object):
    def c3(self, {inner}): return 0
    def c2(self, {mid}*args, **kwargs): return self.c3(*args, **kwargs)
    def c1(self, {outer}*args, **kwargs): return self.c2(*args, **kwargs)
obj = K()
''', 'obj.c1', None),
    ('wraps', '''
def c3({inner}): return 0
@functools.wraps(c3)
def c1({outer}*args, **kwargs): return c3(*args, **kwargs)
''', 'c1', ['c1', 'c3']),
    ('partial-param', '''
def c3({inner}): return 0
def c1(fn, {outer}*args, **kwargs): return fn(*args, **kwargs)
target = functools.partial(c1, c3)
''', 'target', None),
    ('modifiers', '''
from sigtools import modifiers
def c3({inner}): return 0
@modifiers.kwoargs('o')
def c1(o, *args, **kwargs): return c3(*args, **kwargs)
''', 'c1', None),
    ('modifiers-stacked', '''
from sigtools import modifiers
def c3({inner}): return 0
@modifiers.posoargs('o')
@modifiers.kwoargs('k')
def c1(o, k=1, *args, **kwargs): return c3(*args, **kwargs)
''', 'c1', None),
    ('modifiers-stacked-auto', '''
from sigtools import modifiers
def c3({inner}): return 0
@modifiers.posoargs(end='o')
@modifiers.autokwoargs
def c1(o, k=1, *args, **kwargs): return c3(*args, **kwargs)
''', 'c1', None),
    ('modifiers-annotate', '''
from sigtools import modifiers
def c3({inner}): return 0
@modifiers.annotate(o=int)
@modifiers.kwoargs('o')
def c1(o, *args, **kwargs): return c3(*args, **kwargs)
''', 'c1', None),
    ('forwards_to', '''
from sigtools import specifiers
def c3({inner}): return 0
@specifiers.forwards_to_function(c3)
def c1({outer}*args, **kwargs): return c3(*args, **kwargs)
''', 'c1', ['c1', 'c3']),
    ('modifiers-method', '''
from sigtools import modifiers
def c3({inner}): return 0
class K(object):
    @modifiers.kwoargs('o')
    def c1(self, o, *args, **kwargs): return c3(*args, **kwargs)
obj = K()
''', 'obj.c1', None),
    ('annotate-method', '''
from sigtools import modifiers
def c3({inner}): return 0
class K(object):
    @modifiers.annotate(o=int)
    def c1(self, o, *args, **kwargs): return c3(*args, **kwargs)
    @modifiers.kwoargs('o')
    def __call__(self, o, *args, **kwargs): return c3(*args, **kwargs)
obj = K()
''', 'obj.c1', None),
    ('modifiers-call', '''
from sigtools import modifiers
def c3({inner}): return 0
class K(object):
    @modifiers.kwoargs('o')
    def __call__(self, o, *args, **kwargs): return c3(*args, **kwargs)
obj = K()
''', 'obj', None),
    ('wrapper_decorator', '''
from sigtools import wrappers
def _deco(func, {outer}*args, **kwargs): return func(*args, **kwargs)
deco = wrappers.wrapper_decorator(_deco)
def _c1({inner}): return 0
c1 = deco(_c1)
''', 'c1', None),
    ('closure-factory', '''
def c3({inner}): return 0
def c2(q=None): return 0
def make(fn):
    def w({outer}*args, **kwargs): return fn(*args, **kwargs)
    return w
first = make(c2)
import sigtools as _st
FIRST_SIG = _st.signature(first)
c1 = make(c3)
''', 'c1', ['c1', 'c3']),
    ('decorator', '''
from sigtools import wrappers
@wrappers.decorator
def deco(func, {outer}*args, **kwargs): return func(*args, **kwargs)
@deco
def c1({inner}): return 0
''', 'c1', None),
]
CH_INNERS = ['x, y', 'x, *, z=1', '*args, z', 'x, /, y=2, **kwargs', '', 'x, *args, **kwargs']
CH_MIDS = ['', 'm, ']
CH_OUTERS = ['', 'o, ', 'o, p=2, ']


def check_retrieval(tname, inner, mid, outer, stats):
    import sigtools
    from sigtools import signatures
    t = next(x for x in CHAIN_TEMPLATES if x[0] == tname)
    midargs = '1, ' if mid else ''
    src = 'import functools\n' + t[1].format(inner=inner, mid=mid, outer=outer, midargs=midargs)
    case = {'kind': 'retrieval', 'template': tname, 'inner': inner, 'mid': mid, 'outer': outer, 'source': src}
    g = realfn.load(src)
    try:
        obj = g[t[2].split('.')[0]]
        for a in t[2].split('.')[1:]:
            obj = getattr(obj, a)
        first_views = {}
        for rnd in (0, 1):
            if rnd == 1:
                # retrievals on objects built from this one (a partial object over it, a second partial with a bound keyword)
                # must leave what it reports unchanged: every returned map is the caller's own
                import functools
                for rel_label, rel in (('functools.partial(%s)' % t[2], functools.partial(obj)),
                                       ('functools.partial(%s, zz9=1)' % t[2], functools.partial(obj, zz9=1))):
                    for gl, getter in (('sigtools.signature', sigtools.signature), ('signatures.signature', signatures.signature)):
                        stats.case()
                        try:
                            psig = getter(rel)
                        except ValueError:
                            stats.cls('retrieval/partial-raised')
                            continue
                        pdesc = '%s(%s) for\n%s' % (gl, rel_label, src)
                        if check_wellformed(psig, stats, dict(case, via=gl, related=rel_label), pdesc, 'retrieval',
                                            multi_call=tname in ('two-calls', 'diamond')) is False:
                            continue
                        pd = psig.sources['+depths']
                        if pd.get(rel) != 0 or any(d < 1 for f, d in pd.items() if f is not rel):
                            stats.fail('C08/retrieval-partial/depths', dict(case, via=gl, related=rel_label),
                                       '%s: the partial object is called first (depth 0), everything else lies deeper; got %r' % (pdesc, pd))
                        stats.cls('retrieval/partial-over/%s' % tname)
            for label, getter in (('sigtools.signature', sigtools.signature), ('signatures.signature', signatures.signature),
                                  ('sigtools.signature(auto=False)', lambda o: sigtools.signature(o, auto=False))):
                try:
                    sig = getter(obj)
                except ValueError:
                    continue
                view = (str(sig), sorted((n, [expect.ident(f) for f in fs]) for n, fs in sig.sources.items() if n != '+depths'),
                        sorted((repr(expect.ident(f)), d) for f, d in sig.sources.get('+depths', {}).items()))
                if rnd == 0:
                    first_views[label] = view
                elif label in first_views and first_views[label] != view:
                    stats.fail('C08/retrieval/changes-after-related-retrieval', dict(case, via=label),
                               '%s(%s) reported %r before and %r after the signatures of partial objects over it were retrieved, for\n%s' % (
                                   label, t[2], first_views[label], view, src))
        for label, getter in (('sigtools.signature', sigtools.signature), ('signatures.signature', signatures.signature),
                              ('sigtools.signature(auto=False)', lambda o: sigtools.signature(o, auto=False))):
            stats.case()
            try:
                sig = getter(obj)
            except ValueError:
                stats.cls('retrieval/raised')
                continue
            desc = '%s(%s) for\n%s' % (label, t[2], src)
            res = check_wellformed(sig, stats, dict(case, via=label), desc, 'retrieval', multi_call=tname in ('two-calls', 'diamond'))
            if res is False:
                continue
            depths = sig.sources['+depths']
            contributing = set()
            for n in sig.parameters:
                contributing.update(id(f) for f in sig.sources.get(n, ()))
            stats.cls('retrieval/%s/%d-sources' % (tname, min(len(contributing), 3)))
            if len(contributing) >= 2:
                stats.nontriv((tname, inner, mid, outer, label))
                stats.sample('retrieval/' + tname, {'source': src, 'via': label, 'signature': str(sig),
                                                    'depths': {getattr(f, '__name__', repr(f))[:40]: d for f, d in depths.items()}})
            if label == 'sigtools.signature' and t[3]:
                chain = [g[n] for n in t[3]]
                present = [f for f in chain if f in depths]
                ds = [depths[f] for f in present]
                if chain[0] not in depths:
                    stats.fail('C08/retrieval/outermost-missing', dict(case, via=label), '%s: the inspected callable itself has no depth: %r' % (desc, depths))
                if present and present[0] is chain[0] and ds[0] != 0:
                    stats.fail('C08/retrieval/outermost-depth', dict(case, via=label), '%s: depth of the outermost callable is %d' % (desc, ds[0]))
                if any(b <= a for a, b in zip(ds, ds[1:])):
                    stats.fail('C08/retrieval/depth-not-increasing', dict(case, via=label), '%s: depths along the chain %s are %s' % (desc, t[3], ds))
            if tname == 'wrapper_decorator' and g['_deco'] in depths and g['_c1'] in depths and not depths[g['_deco']] < depths[g['_c1']]:
                stats.fail('C08/retrieval/depth-not-increasing', dict(case, via=label),
                           '%s: the wrapping function (depth %d) calls the wrapped one (depth %d)' % (desc, depths[g['_deco']], depths[g['_c1']]))
            if tname == 'diamond' and label == 'sigtools.signature':
                c3 = g['c3']
                if c3 in depths and depths[c3] != 1:
                    stats.fail('C08/retrieval/min-depth', dict(case, via=label), '%s: c3 is reachable at depth 1 and 2, recorded depth %d' % (desc, depths[c3]))
            if tname.startswith('modifiers') and hasattr(obj, 'func') and not tname.endswith(('-method', '-call')):
                raw = obj.func
                listed = set()
                for n in sig.parameters:
                    listed.update(id(f) for f in sig.sources.get(n, ()))
                if id(raw) in listed or raw in depths:
                    stats.fail('C08/retrieval/modifiers-swap', dict(case, via=label), '%s: the wrapped function itself appears in sources/depths next to its wrapper' % desc)
                if obj not in depths:
                    stats.fail('C08/retrieval/modifiers-swap-missing', dict(case, via=label), '%s: the wrapper object has no depth' % desc)
    finally:
        realfn.unload(g)


def retrieval_tasks():
    out = []
    for t in CHAIN_TEMPLATES:
        for inner in CH_INNERS:
            for mid in (CH_MIDS if '{mid}' in t[1] else ['']):
                for outer in (CH_OUTERS if '{outer}' in t[1] else ['']):
                    out.append((t[0], inner, mid, outer))
    return out


def shard_retrieval(arg):
    tasks, = arg
    st = Stats()
    for t in tasks:
        check_retrieval(*t, stats=st)
    return st


CORPUS = ['json.load', 'json.dump', 'json.loads', 'logging.error', 'logging.info', 'logging.Logger.error', 'subprocess.run',
          'subprocess.check_output', 'functools.partial', 'functools.wraps', 'textwrap.wrap', 'textwrap.fill', 'pprint.pprint',
          'argparse.ArgumentParser.add_argument', 'collections.namedtuple', 'tempfile.NamedTemporaryFile', 'shutil.copytree',
          'warnings.warn_explicit', 'inspect.signature', 'inspect.getcallargs', 'threading.Thread', 'string.Formatter.format',
          'unittest.TestCase.assertRaises', 'contextlib.contextmanager', 'os.makedirs', 'os.path.join', 'gzip.open', 'csv.DictReader']


def shard_corpus(arg):
    names, = arg
    import importlib
    import sigtools
    from sigtools import signatures
    st = Stats()
    for dotted in names:
        parts = dotted.split('.')
        obj = importlib.import_module(parts[0])
        for a in parts[1:]:
            obj = getattr(obj, a)
        for label, getter in (('sigtools.signature', sigtools.signature), ('signatures.signature', signatures.signature)):
            st.case()
            try:
                sig = getter(obj)
            except (ValueError, TypeError):
                st.cls('corpus/raised')
                continue
            st.cls('corpus/returned')
            res = check_wellformed(sig, st, {'kind': 'corpus', 'name': dotted, 'via': label}, '%s(%s)' % (label, dotted), 'corpus')
            if res is not False:
                contributing = set()
                for n in sig.parameters:
                    contributing.update(id(f) for f in sig.sources.get(n, ()))
                if len(contributing) >= 2:
                    st.nontriv(('corpus', dotted, label))
                    st.sample('corpus', {'name': dotted, 'signature': str(sig)})
    return st


def st_case():
    return c15.st_case()


def check_hyp(case, stats):
    op, specs, args, down = case
    check_algebra(op, specs, args, stats)


def shard_hyp(arg):
    seed, n = arg
    st = Stats()
    hyp_search(st_case(), check_hyp, st, n, seed)
    return st


def run(ctx):
    c15._init()
    total = Stats()
    idx = ctx.stride(list(range(len(c15._U2))), ctx.pick(0.04, 1.0))
    total.merge(ctx.pmap(shard_merge, [(idx[i::64],) for i in range(64) if idx[i::64]]))
    idx = ctx.stride(list(range(len(c15._OUT))), ctx.pick(0.06, 1.0))
    total.merge(ctx.pmap(shard_embed, [(idx[i::64],) for i in range(64) if idx[i::64]]))
    if not ctx.quick:
        total.exhaustive['merge: ordered pairs of the <=2-named universe'] = len(c15._U2) ** 2
        total.exhaustive['embed: outers x inners x 4 flag pairs'] = len(c15._OUT) * len(c15._INN) * 4
    nm = ctx.pick(40000, 800000)
    total.merge(ctx.pmap(shard_misc, [(ctx.seed * 7919 + s * 104729, 1000003 + 2 * s, nm // 32) for s in range(32)]))
    tasks = retrieval_tasks()
    total.merge(ctx.pmap(shard_retrieval, [(tasks[i::32],) for i in range(32) if tasks[i::32]]))
    total.merge(ctx.pmap(shard_corpus, [(CORPUS[i::8],) for i in range(8)]))
    nh = ctx.pick(3200, 32000)
    total.merge(ctx.pmap(shard_hyp, [(s, nh // 16) for s in ctx.shard_seeds(16)]))
    return total


def replay(case, stats):
    if case.get('kind') == 'same-twice':
        check_same_twice(tuple(Par(*p) for p in case['spec']), stats)
        return
    if case.get('kind') == 'retrieval':
        check_retrieval(case['template'], case['inner'], case['mid'], case['outer'], stats)
    elif case.get('kind') == 'corpus':
        stats.merge(shard_corpus(([case['name']],)))
    else:
        specs = tuple(tuple(Par(*p) for p in s) for s in case['specs'])
        check_algebra(case['op'], specs, case['args'], stats)
