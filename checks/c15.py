"""C15 -- the algebra fails only with ValueError and never yields malformed output.

Outcome of merge / embed / mask / forwards on ANY inputs (role-inconsistent pairs, foreign, duplicate and
positional-only names, n beyond the parameter count, every flag) is either a well-formed UpgradedSignature
or a ValueError -- IncompatibleSignatures from merge/embed when the inputs are role-consistent.
Downgraded (plain inspect.Signature) inputs give the same parameters plus a DeprecationWarning.
Retrieval turns such failures into its fallback (the plain signature).

The generic operation runner of this module is shared with C16 part A and C08/C10/C14."""
import inspect
import itertools
import warnings

from vlib import cpbind, realfn, universe
from vlib.framework import Stats, hyp_search
from vlib.universe import Par, PO, POK, VP, KWO, VK

LEVEL = 'exploration'
RULE = ('E2: merge on all ordered pairs of the <=2-named universe (1 305 signatures) and sampled triples; embed on 220 outers x '
        '1 305 inners x 4 flag pairs; mask on the <=3-named universe x n in 0..len+2 x name tuples (length<=2, with repetition, '
        'positional-only, star and foreign names included) x 16 flag combinations; forwards on sampled (outer, inner, n, names, '
        '7 flags); a stride of every family repeated with downgraded inputs; fallback of retrieval on generated wrappers whose '
        'forwarding cannot be honoured; E1 Hypothesis cases with <=5 named parameters. Non-trivial = the operation raised, or '
        'returned from role-inconsistent inputs, or ran on downgraded inputs; distinct by (operation, inputs, arguments).')
ASSUMPTIONS = ['well-formedness is re-validated through the inspect.Signature constructor on plain copies of the parameters']

FLAGS2 = ((True, True), (True, False), (False, True), (False, False))
MASK_FLAGS = ('hide_args', 'hide_kwargs', 'hide_varargs', 'hide_varkwargs')


def downgrade(sig):
    ps = [inspect.Parameter(p.name, p.kind, default=p.default, annotation=p.annotation) for p in sig.parameters.values()]
    return inspect.Signature(ps, return_annotation=sig.return_annotation)


def sparse_provenance(sig, mode):
    if mode == 'sources={}':
        return sig.replace(sources={})
    src = dict((k, list(v)) for k, v in sig.sources.items() if k != '+depths')
    if mode == "sources without '+depths'":
        return sig.replace(sources=src)
    for k in list(src)[:1]:
        del src[k]
    src['+depths'] = {}
    return sig.replace(sources=src)


def wellformed(sig):
    """None if well-formed, else a description of what is wrong."""
    from sigtools import signatures
    if not isinstance(sig, signatures.UpgradedSignature):
        return 'result is %s, not an UpgradedSignature' % type(sig).__name__
    ps = list(sig.parameters.values())
    for p in ps:
        if not isinstance(p, signatures.UpgradedParameter):
            return 'parameter %s is not an UpgradedParameter' % p.name
    try:
        plain = [inspect.Parameter(p.name, p.kind, default=p.default, annotation=p.annotation) for p in ps]
        inspect.Signature(plain)
    except (ValueError, TypeError) as e:
        return 'parameters do not re-validate: %s' % e
    if len(set(p.name for p in ps)) != len(ps):
        return 'duplicate parameter names'
    src = getattr(sig, 'sources', None)
    if not isinstance(src, dict) or '+depths' not in src or not isinstance(src['+depths'], dict):
        return "sources lacks a '+depths' map"
    return None


def apply_op(op, sigs, args):
    """Run one public operation. Returns (result or None, exception or None)."""
    from sigtools import signatures
    try:
        if op == 'merge':
            return signatures.merge(*sigs), None
        if op == 'embed':
            return signatures.embed(*sigs, use_varargs=args['use_varargs'], use_varkwargs=args['use_varkwargs']), None
        if op == 'mask':
            return signatures.mask(sigs[0], args['n'], *args['names'], **args.get('flags', {})), None
        if op == 'forwards':
            return signatures.forwards(sigs[0], sigs[1], args['n'], *args['names'], **args.get('flags', {})), None
        raise AssertionError(op)
    except Exception as e:   # the oracle classifies the type; nothing is swallowed
        return None, e


def describe(op, specs, args):
    a = dict(args)
    names = a.pop('names', ())
    n = a.pop('n', None)
    fl = a.pop('flags', {})
    fl = dict(fl, **a)
    extra = ([str(n)] if n is not None else []) + [repr(x) for x in names] + ['%s=%s' % kv for kv in sorted(fl.items()) if kv[1] is not None]
    return '%s(%s%s)' % (op, ', '.join('(%s)' % universe.spec_text(s) for s in specs), ''.join(', ' + e for e in extra))


def check_op(op, specs, args, stats, enum=False, down=False):
    from sigtools import signatures
    stats.case()
    # annotations spelled with T9 / Missing9 are postponed ones that cannot be evaluated (TypeError, AttributeError, NameError)
    sigs = [realfn.sig_of(s, 'f%d' % i) for i, s in enumerate(specs)]
    case = {'op': op, 'specs': [list(map(list, s)) for s in specs], 'args': args, 'downgraded': down}
    desc = describe(op, specs, args)
    r, exc = apply_op(op, sigs, args)
    views = [universe.spec_view(s) for s in specs]
    cons = cpbind.role_consistent(views) if op in ('merge', 'embed') else None
    nontriv = False
    if exc is not None:
        nontriv = True
        if not isinstance(exc, ValueError):
            stats.cls('%s/raised-OTHER' % op)
            stats.fail('C15/%s/exception-type/%s' % (op, type(exc).__name__), case, '%s raised %s: %s' % (desc, type(exc).__name__, exc))
        elif op in ('merge', 'embed') and cons and not isinstance(exc, signatures.IncompatibleSignatures):
            stats.cls('%s/raised-plain-ValueError' % op)
            stats.fail('C15/%s/not-IncompatibleSignatures' % op, case, '%s on role-consistent inputs raised plain ValueError: %s' % (desc, exc))
        else:
            stats.cls('%s/raised-%s' % (op, type(exc).__name__))
            stats.sample('%s/raised' % op, {'call': desc, 'exception': type(exc).__name__})
    else:
        wf = wellformed(r)
        cls = '%s/returned%s' % (op, '' if cons is None else '-consistent' if cons else '-inconsistent')
        stats.cls(cls)
        if cons is False:
            nontriv = True
            stats.sample(cls, {'call': desc, 'result': str(r)})
        if wf:
            stats.fail('C15/%s/malformed' % op, case, '%s -> %r: %s' % (desc, r, wf))
    if down:
        nontriv = True
        stats.case()
        with warnings.catch_warnings(record=True) as w:
            warnings.simplefilter('always')
            r2, exc2 = apply_op(op, [downgrade(s) for s in sigs], args)
        nwarn = sum(1 for x in w if issubclass(x.category, DeprecationWarning))
        stats.cls('downgraded/%s' % ('raised' if exc2 is not None else 'returned'))
        if (exc is None) != (exc2 is None) or (exc is not None and type(exc) is not type(exc2)):
            stats.fail('C15/downgraded/outcome', case, '%s: upgraded inputs -> %s, plain inputs -> %s' % (
                desc, r if exc is None else type(exc).__name__, r2 if exc2 is None else type(exc2).__name__))
        elif exc is None:
            if universe.spec_from_sig(r) != universe.spec_from_sig(r2):
                stats.fail('C15/downgraded/params', case, '%s: upgraded inputs -> %s, plain inputs -> %s' % (desc, r, r2))
            wf = wellformed(r2)
            if wf:
                stats.fail('C15/downgraded/malformed', case, '%s with plain inputs -> %r: %s' % (desc, r2, wf))
        if nwarn < 1:
            stats.fail('C15/downgraded/no-warning', case, '%s with plain inspect.Signature inputs emitted no DeprecationWarning' % desc)
    if down:
        # hand-built provenance: an UpgradedSignature made from parameters alone has an empty map, one whose map was written
        # by hand may list owners without recording a depth for them; what the operation does with the parameters is the same
        for mode in ('sources={}', "sources without '+depths'", 'one entry removed, no depths recorded'):
            stats.case()
            sparse = [sparse_provenance(x, mode) for x in sigs]
            with warnings.catch_warnings():
                warnings.simplefilter('ignore')
                r3, exc3 = apply_op(op, sparse, args)
            stats.cls('hand-built provenance/%s' % ('raised' if exc3 is not None else 'returned'))
            if (exc is None) != (exc3 is None) or (exc is not None and type(exc) is not type(exc3)):
                stats.fail('C15/hand-built-provenance/outcome', dict(case, provenance=mode), '%s: inputs as retrieved -> %s, the same inputs with %s -> %s%s' % (
                    desc, r if exc is None else type(exc).__name__, mode, r3 if exc3 is None else type(exc3).__name__, '' if exc3 is None else ': %s' % exc3))
            elif exc is None:
                if universe.spec_from_sig(r) != universe.spec_from_sig(r3):
                    stats.fail('C15/hand-built-provenance/params', dict(case, provenance=mode), '%s: inputs as retrieved -> %s, with %s -> %s' % (desc, r, mode, r3))
                wf = wellformed(r3)
                if wf:
                    stats.fail('C15/hand-built-provenance/malformed', dict(case, provenance=mode), '%s with %s -> %r: %s' % (desc, mode, r3, wf))
    if nontriv:
        if enum:
            stats.nontriv_enum()
        else:
            stats.nontriv((op, [universe.spec_text(s) for s in specs], args, down))
    return r, exc


# ---------------------------------------------------------------------------------------
_U2 = _U3 = _OUT = _INN = None


def _init():
    global _U2, _U3, _OUT, _INN
    if _U2 is None:
        _U2 = universe.enum_specs(('a', 'b', 'c'), 2, ('args', 'p'), ('kwargs', 'k'))
        _U3 = universe.enum_specs(('a', 'b', 'c'), 3, ('args',), ('kwargs',))
        _OUT = universe.enum_specs(('a', 'b'), 2, ('args',), ('kwargs',))
        _INN = universe.enum_specs(('a', 'x', 'y'), 2, ('args', 'p'), ('kwargs', 'k'))


def shard_merge(arg):
    idxs, downstride = arg
    _init()
    st = Stats()
    c = 0
    n = len(_U2)
    for x in idxs:
        i, j = divmod(x, n)
        c += 1
        check_op('merge', (_U2[i], _U2[j]), {}, st, True, down=(c % downstride == 0))
    return st


def shard_embed(arg):
    idxs, downstride = arg
    _init()
    st = Stats()
    c = 0
    n = len(_INN)
    for x in idxs:
        i, j = divmod(x, n)
        for uva, uvk in FLAGS2:
            c += 1
            check_op('embed', (_OUT[i], _INN[j]), {'use_varargs': uva, 'use_varkwargs': uvk}, st, True, down=(c % downstride == 0))
    return st


def mask_name_tuples(spec):
    cand = [p.name for p in spec] + ['q']
    out = [()]
    out += [(x,) for x in cand]
    out += [(x, y) for x in cand for y in cand]
    return out


def shard_mask(arg):
    specs, downstride = arg
    st = Stats()
    c = 0
    for spec in specs:
        for n in list(range(len(spec) + 3)) + [-1]:
            for names in mask_name_tuples(spec):
                for fl in itertools.product((False, True), repeat=4):
                    c += 1
                    check_op('mask', (spec,), {'n': n, 'names': list(names), 'flags': dict(zip(MASK_FLAGS, fl))}, st, True,
                             down=(c % downstride == 0))
    return st


FWD_FLAGS = ('hide_args', 'hide_kwargs', 'use_varargs', 'use_varkwargs', 'partial')


def shard_forwards(arg):
    start, step, count, downstride = arg
    _init()
    st = Stats()
    total = len(_OUT) * len(_INN)
    x = start
    for c in range(count):
        x = (x + step) % total
        i, j = divmod(x, len(_INN))
        so, si = _OUT[i], _INN[j]
        y = (x * 2654435761 + c) & 0xffffffff
        n = y % (len(si) + 2)
        y >>= 3
        cand = [p.name for p in si] + ['q']
        names = []
        for _ in range(y % 3):
            y >>= 2
            names.append(cand[y % len(cand)])
        y >>= 2
        fl = {k: bool((y >> b) & 1) for b, k in enumerate(FWD_FLAGS)}
        check_op('forwards', (so, si), {'n': n, 'names': names, 'flags': fl}, st, False, down=(c % downstride == 0))
    return st


def shard_triples(arg):
    start, step, count = arg
    _init()
    st = Stats()
    small = [s for s in _U2 if all(p.name in ('a', 'b', 'c', 'args', 'kwargs') for p in s)]
    n = len(small)
    total = n ** 3
    x = start
    for _ in range(count):
        x = (x + step) % total
        i, rem = divmod(x, n * n)
        j, k = divmod(rem, n)
        check_op('merge', (small[i], small[j], small[k]), {}, st, False)
    return st


# retrieval falls back when the algebra step raises -------------------------------------

def check_fallback(so, si, n, names, stats):
    import sigtools
    from sigtools import signatures
    stats.case()
    pos = ', '.join(str(10 + i) for i in range(n))
    kw = ', '.join('%s=%d' % (x, 20 + i) for i, x in enumerate(names))
    parts = [x for x in (pos, '*args' if any(p.kind == VP and p.name == 'args' for p in so) else '', kw,
                         '**kwargs' if any(p.kind == VK and p.name == 'kwargs' for p in so) else '') if x]
    src = ('def callee(%s):\n    return 0\n\ndef wrapper(%s):\n    return callee(%s)\n'
           % (universe.spec_text(si), universe.spec_text(so), ', '.join(parts)))
    case = {'op': 'fallback', 'specs': [list(map(list, so)), list(map(list, si))], 'args': {'n': n, 'names': list(names)}}
    g = realfn.load(src)
    try:
        w = g['wrapper']
        plain = signatures.signature(w)
        uva = '*args' in parts
        uvk = '**kwargs' in parts
        exp, exc = apply_op('forwards', [plain, signatures.signature(g['callee'])],
                            {'n': n, 'names': list(names), 'flags': {'use_varargs': uva, 'use_varkwargs': uvk}})
        try:
            got = sigtools.signature(w)
        except Exception as e:
            stats.cls('fallback/raised')
            stats.fail('C15/fallback/raised-%s' % type(e).__name__, dict(case, source=src),
                       'sigtools.signature(wrapper) raised %s: %s for\n%s' % (type(e).__name__, e, src))
            return
        wf = wellformed(got)
        if wf:
            stats.fail('C15/fallback/malformed', dict(case, source=src), 'sigtools.signature(wrapper) -> %r: %s' % (got, wf))
        if exc is not None and (uva or uvk):
            stats.cls('fallback/algebra-raised')
            stats.nontriv((universe.spec_text(so), universe.spec_text(si), n, tuple(names)))
            stats.sample('fallback/algebra-raised', {'source': src, 'reported': str(got)})
            if universe.spec_from_sig(got) != universe.spec_from_sig(plain):
                stats.fail('C15/fallback/not-plain', dict(case, source=src),
                           'forwards() raises %s for this wrapper but sigtools.signature reports %s instead of the plain %s\n%s' % (
                               type(exc).__name__, got, plain, src))
        else:
            stats.cls('fallback/algebra-ok')
    finally:
        realfn.unload(g)


def shard_fallback(arg):
    pairs, = arg
    st = Stats()
    for so, si in pairs:
        for n in range(0, 3):
            for names in ((), ('q',), ('x',), ('a',)):
                check_fallback(so, si, n, names, st)
    return st


HN = ('a', 'b', 'c', 'd', 'x')


def st_case():
    from hypothesis import strategies as st
    # annotated half of the time: plain inputs carry annotations without an upgraded counterpart
    spec = st.one_of(universe.st_spec(HN, 5, ('args', 'p'), ('kwargs', 'k')),
                     universe.st_spec(HN, 4, ('args', 'p'), ('kwargs', 'k'), ann_exprs=("'A1'", "'A2'")),
                     universe.st_spec(HN[:3], 3, ('args', 'p'), ('kwargs', 'k'), ann_exprs=('T9[int]', 'T9.only_in_stubs', 'Missing9')))

    @st.composite
    def build(draw):
        op = draw(st.sampled_from(['merge', 'merge', 'embed', 'mask', 'forwards']))
        down = draw(st.integers(0, 2)) == 0
        if op == 'merge':
            specs = tuple(draw(st.lists(spec, min_size=1, max_size=4)))
            return (op, specs, {}, down)
        if op == 'embed':
            specs = tuple(draw(st.lists(spec, min_size=1, max_size=3)))
            return (op, specs, {'use_varargs': draw(st.booleans()), 'use_varkwargs': draw(st.booleans())}, down)
        s0 = draw(spec)
        inner = s0 if op == 'mask' else draw(spec)
        cand = [p.name for p in inner] + ['q', 'zz']
        names = draw(st.lists(st.sampled_from(cand), max_size=3))
        n = draw(st.integers(-1, len(inner) + 2))
        if op == 'mask':
            fl = {k: draw(st.booleans()) for k in MASK_FLAGS}
            return (op, (s0,), {'n': n, 'names': names, 'flags': fl}, down)
        fl = {k: draw(st.booleans()) for k in FWD_FLAGS}
        return (op, (s0, inner), {'n': n, 'names': names, 'flags': fl}, down)
    return build()


def check_hyp(case, stats):
    op, specs, args, down = case
    check_op(op, specs, args, stats, False, down)


def shard_hyp(arg):
    seed, n = arg
    st = Stats()
    hyp_search(st_case(), check_hyp, st, n, seed)
    return st


def shard_degenerate(arg):
    """No signature at all: merge() and embed() are defined for one or more; an empty argument list is refused with ValueError."""
    from sigtools import signatures
    st = Stats()
    a = realfn.sig_of((Par('a', POK), Par('b', POK), Par('args', VP)), 'f0')
    b = realfn.sig_of((Par('x', POK), Par('args', VP), Par('kwargs', VK)), 'f1')
    for label, call in (('merge()', lambda: signatures.merge()), ('embed()', lambda: signatures.embed()),
                        ('embed(use_varargs=False)', lambda: signatures.embed(use_varargs=False)),
                        # a negative number of positional arguments cannot be passed to anything
                        ('mask((a, b, *args), -1)', lambda: signatures.mask(a, -1)),
                        ('mask((a, b, *args), -2, hide_args=True)', lambda: signatures.mask(a, -2, hide_args=True)),
                        ('forwards((x, *args, **kwargs), (a, b, *args), -1)', lambda: signatures.forwards(b, a, -1))):
        st.case()
        st.cls('degenerate/no-signature')
        try:
            r = call()
            out = 'returned %r' % (r,)
        except ValueError:
            st.nontriv(('degenerate', label))
            continue
        except Exception as e:
            out = 'raised %s: %s' % (type(e).__name__, e)
        st.fail('C15/no-signature/%s' % label.split('(')[0], {'op': 'degenerate', 'call': label}, '%s %s; expected ValueError' % (label, out))
    return st


def run(ctx):
    _init()
    total = Stats()
    ds = 4
    # (the quick tier samples the pair spaces evenly rather than taking every partner of a few left-hand sides)
    idx = ctx.stride(range(len(_U2) ** 2), ctx.pick(0.04, 1.0))
    total.merge(ctx.pmap(shard_degenerate, [0]))
    total.merge(ctx.pmap(shard_merge, [(idx[i::64], ds) for i in range(64) if idx[i::64]]))
    idx = ctx.stride(range(len(_OUT) * len(_INN)), ctx.pick(0.05, 1.0))
    total.merge(ctx.pmap(shard_embed, [(idx[i::64], ds) for i in range(64) if idx[i::64]]))
    specs = ctx.stride(_U3, ctx.pick(0.02, 0.5))
    total.merge(ctx.pmap(shard_mask, [(specs[i::128], ds * 4) for i in range(128) if specs[i::128]]))
    nf = ctx.pick(40000, 800000)
    total.merge(ctx.pmap(shard_forwards, [(ctx.seed * 7919 + s * 104729, 1000003 + 2 * s, nf // 32, ds) for s in range(32)]))
    nt = ctx.pick(30000, 600000)
    total.merge(ctx.pmap(shard_triples, [(ctx.seed * 7919 + s * 104729, 1000003 + 2 * s, nt // 32) for s in range(32)]))
    outs = [s for s in _OUT if any(p.kind in (VP, VK) and p.name in ('args', 'kwargs') for p in s)]
    inns = [s for s in _INN if all(p.name not in ('p', 'k') for p in s)]
    pairs = [(o, i) for o in outs for i in inns]
    pairs = ctx.stride(pairs, ctx.pick(0.01, 0.2))
    total.merge(ctx.pmap(shard_fallback, [(pairs[i::64],) for i in range(64) if pairs[i::64]]))
    if not ctx.quick:
        total.exhaustive['merge: ordered pairs of the <=2-named universe'] = len(_U2) ** 2
        total.exhaustive['embed: outers x inners x 4 flag pairs'] = len(_OUT) * len(_INN) * 4
    nh = ctx.pick(4000, 48000)
    total.merge(ctx.pmap(shard_hyp, [(s, nh // 16) for s in ctx.shard_seeds(16)]))
    return total


def replay(case, stats):
    if case.get('op') == 'degenerate':
        stats.merge(shard_degenerate(0))
        return
    specs = tuple(tuple(Par(*p) for p in s) for s in case['specs'])
    if case['op'] == 'fallback':
        check_fallback(specs[0], specs[1], case['args']['n'], tuple(case['args']['names']), stats)
    else:
        check_op(case['op'], specs, case['args'], stats, False, case.get('downgraded', False))
