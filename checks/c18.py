"""C18 -- decorator application order and repeated use do not change the result; no lifetime extension.

Part A (permutations): for a function and a set of modifier applications {kwoargs(S1), posoargs(S2),
  autokwoargs(exceptions=S3), annotate(ret, **anns)}, every application order in which each step is
  admissible (decided by C12's independent reference, stepwise) must succeed and yield the same
  sigtools.signature / inspect.signature -- including the annotations, so annotate applied after a
  keyword/positional modifier shows in what that modifier advertises -- and the same call behaviour.
Part B (histories): a Hypothesis RuleBasedStateMachine over classes whose methods are modifiers-wrapped,
  forger-decorated (forwards_to_method with and without emulate) and wrappers.decorator-made:
  rules = create instance / access a method on an instance, the class or a subclass / retrieve its
  signature (sigtools, inspect) / call it / re-decorate a fresh function / drop an instance
  (every strong reference the machine holds, then gc.collect()).  Invariants after every step: every
  retrieval and call equals the model computed once on a pristine copy; objects obtained from instance i
  are bound to i; repeated access gives equal results; every dropped instance has been reclaimed
  (observed through weakref).
Part C (decorator objects): one kwoargs / posoargs (names, start=, end=) / autokwoargs(exceptions=) / annotate decorator object applied
  to a first function, then to a second one and to the first again: each application advertises and does what a fresh decorator
  object applied to that function advertises and does (or raises ValueError alike)."""
import gc
import inspect
import itertools
import weakref

from vlib import cpbind, realfn, universe
from vlib.framework import time_budget, BudgetExceeded, abandoned, Stats, hyp_search, hyp_settings
from vlib.universe import Par, PO, POK, VP, KWO, VK
from checks import c12

LEVEL = 'exploration'
RULE = ('Part A: functions of the <=3-named universe (thorough: all; quick: stride; 4-named sampled) x step sets drawn from '
        '{kwoargs(S1), posoargs(S2), autokwoargs(exceptions=S3), annotate} x ALL permutations, each admissible permutation applied '
        'for real and compared (signature via sigtools and inspect, annotations, calls on all shapes). Part B: Hypothesis '
        'rule-based state machines (<=30 steps) and an exhaustive enumeration of rule sequences of length <=5 over a reduced '
        'alphabet. Non-trivial = >=2 admissible orders (A); a history with a bind/retrieve followed by a drop, or >=2 instances '
        'interleaved (B); distinct by (function, step set) / by history.')
ASSUMPTIONS = ['reclamation is observed with weakref.ref(instance)() is None after gc.collect() once the machine has dropped every '
               'strong reference it holds (instances, bound objects, signatures)']

ANN = {'ret': 'R'}


# ------------------------------------------------------------------------------ part A

def step_sets(spec):
    poks = [p.name for p in spec if p.kind == POK]
    dflt = [p.name for p in spec if p.kind == POK and p.default is not None]
    out = []
    ksubs = [c for r in (1, 2) for c in itertools.combinations(poks, r)]
    for K in ksubs:
        rest = [x for x in poks if x not in K]
        for r in (1, 2):
            for P in itertools.combinations(rest, r):
                out.append([('K', list(K)), ('P', list(P))])
                out.append([('K', list(K)), ('P', list(P)), ('N', None)])
        out.append([('K', list(K)), ('N', None)])
        if dflt:
            out.append([('K', list(K)), ('A', [])])
            out.append([('K', list(K)), ('A', []), ('N', None)])
    for r in (1, 2):
        for P in itertools.combinations(poks, r):
            out.append([('P', list(P)), ('N', None)])
            if dflt:
                out.append([('P', list(P)), ('A', [])])
                for ex in dflt[:2]:
                    out.append([('P', list(P)), ('A', [ex]), ('N', None)])
    if dflt:
        out.append([('A', []), ('N', None)])
    return out


def ref_apply(spec, steps):
    """Stepwise reference: returns the final (kwo, poso, annotated?) or raises c12.Inadmissible."""
    kwo, poso, ann = set(), set(), False
    for which, arg in steps:
        if which == 'K':
            kwo |= set(arg)
        elif which == 'P':
            poso |= set(arg)
        elif which == 'A':
            cur = c12.expected(spec, kwo, poso)
            d = [p.name for p in cur if p.kind == POK and p.default is not None]
            if set(arg) - set(d):
                raise c12.Inadmissible('exceptions not present')
            kwo |= set(x for x in d if x not in arg)
        else:
            ann = True
        c12.expected(spec, kwo, poso)
    return kwo, poso, ann


def real_apply(f, spec, steps, trail=None):
    from sigtools import modifiers
    g = f
    for which, arg in steps:
        if which == 'K':
            g = modifiers.kwoargs(*arg)(g)
        elif which == 'P':
            g = modifiers.posoargs(*arg)(g)
        elif which == 'A':
            g = modifiers.autokwoargs(exceptions=arg)(g) if arg else modifiers.autokwoargs(g)
        else:
            g = modifiers.annotate('R', **{p.name: 'ann_' + p.name for p in spec if p.kind not in (VP, VK)})(g)
        if trail is not None and which != 'N' and g is not f:
            trail.append((which, arg, g))
    return g


def observe(g, view_names, maxpos):
    import sigtools
    out = {}
    for label, getter in (('sigtools', sigtools.signature), ('inspect', inspect.signature)):
        s = getter(g)
        ps = universe.spec_from_sig(s)
        out[label] = (tuple(p for p in ps if p.kind != KWO), frozenset(p for p in ps if p.kind == KWO), repr(s.return_annotation))
    calls = []
    for n in range(maxpos + 1):
        for r in range(len(view_names) + 1):
            for K in itertools.combinations(view_names, r):
                try:
                    res = g(*[100 + i for i in range(n)], **{k: 'k_' + k for k in K})
                    res = tuple(sorted((k, repr(v)) for k, v in res.items()))
                except TypeError:
                    res = 'TypeError'
                except Exception as e:
                    # nothing the decorated function does raises anything else: the wrapper objects did
                    res = 'raised %s' % type(e).__name__
                calls.append(res)
    out['calls'] = tuple(calls)
    return out


def check_orders(spec, steps, stats, enum=True):
    spec = c12.with_defaults(spec)
    perms = list(itertools.permutations(steps))
    admissible = []
    for perm in perms:
        try:
            fin = ref_apply(spec, perm)
            admissible.append((perm, fin))
        except c12.Inadmissible:
            pass
    case = {'part': 'A', 'spec': list(map(list, spec)), 'steps': [list(s) for s in steps]}
    stats.cls('A/%d-admissible-orders' % min(len(admissible), 3))
    if len(admissible) < 1:
        return
    names = tuple(p.name for p in spec if p.kind in (PO, POK, KWO))[:4] + ('q',)
    maxpos = cpbind.poscap(universe.spec_view(spec)) + 1
    results = []
    for perm, fin in admissible:
        stats.case()
        # a fresh function per order: annotate writes to the innermost function
        f = realfn.plain_function(spec, 'f', cache=False)
        desc = ' then '.join('%s%s' % ({'K': 'kwoargs', 'P': 'posoargs', 'A': 'autokwoargs(exceptions=)', 'N': 'annotate'}[w], a if a is not None else '') for w, a in perm)
        try:
            trail = []
            g = real_apply(f, spec, perm, trail)
            # every intermediate object stays what it was when further decorators are stacked on it: observed on a second,
            # identical build that stops there
            for k, (which, arg, obj) in enumerate(trail[:-1]):
                f2 = realfn.plain_function(spec, 'f', cache=False)
                k_steps = [s for s in perm if s[0] != 'N'][:k + 1]
                alone = real_apply(f2, spec, k_steps)
                a, b = observe(obj, names, maxpos)['calls'], observe(alone, names, maxpos)['calls']
                if a != b:
                    stats.fail('C18/A/earlier-object-changed', dict(case, order=[list(s) for s in perm]),
                               'def f(%s): after %s, the object made by the first %d modifier step(s) no longer behaves as it does on its own '
                               '(%d of %d call outcomes differ)' % (universe.spec_text(spec), desc, k + 1, sum(x != y for x, y in zip(a, b)), len(a)))
                    break
        except ValueError as e:
            stats.fail('C18/A/admissible-order-rejected', dict(case, order=[list(s) for s in perm]),
                       'def f(%s): applying %s raised ValueError(%s) although every step is admissible in that order' % (universe.spec_text(spec), desc, e))
            continue
        obs = observe(g, names, maxpos)
        results.append((desc, fin, obs))
        # against the reference
        kwo, poso, ann = fin
        exp = c12.expected(spec, kwo, poso)
        if ann:
            exp = tuple(p._replace(ann=repr('ann_' + p.name)) if p.kind not in (VP, VK) else p for p in exp)
        want = (tuple(p for p in exp if p.kind != KWO), frozenset(p for p in exp if p.kind == KWO), repr('R') if ann else repr(inspect.Signature.empty))
        for label in ('sigtools', 'inspect'):
            if obs[label] != want:
                which = 'annotations' if (tuple(p._replace(ann=None) for p in obs[label][0]) == tuple(p._replace(ann=None) for p in want[0])
                                          and frozenset(p._replace(ann=None) for p in obs[label][1]) == frozenset(p._replace(ann=None) for p in want[1])) else 'parameters'
                stats.fail('C18/A/advertised-%s' % which, dict(case, order=[list(s) for s in perm], via=label),
                           'def f(%s): %s advertises %s via %s.signature; expected (%s)%s' % (
                               universe.spec_text(spec), desc, obs[label], label, universe.spec_text(exp), ' -> R' if ann else ''))
                break
    if len(results) >= 2:
        if enum:
            stats.nontriv_enum()
        else:
            stats.nontriv((universe.spec_text(spec), [list(s) for s in steps]))
        stats.sample('A', {'function': universe.spec_text(spec), 'orders': [r[0] for r in results]})
        d0, f0, o0 = results[0]
        for d, fin, o in results[1:]:
            if fin == f0 and o != o0:
                what = 'signature' if (o['sigtools'], o['inspect']) != (o0['sigtools'], o0['inspect']) else 'call behaviour'
                stats.fail('C18/A/order-dependent-%s' % what.split()[0], case,
                           'def f(%s): "%s" and "%s" give different %s' % (universe.spec_text(spec), d0, d, what))
                break


# -- methods: stacked start= / end= forms and a return-only annotate, looked up on the class and on an instance

def method_step_sets(spec):
    poks = [p.name for p in spec if p.kind == POK]
    dflt = [p.name for p in spec if p.kind == POK and p.default is not None]
    out = []
    for x in poks:
        for y in poks:
            if x != y:
                out.append([('Ks', x), ('K', [y])])
                out.append([('Pe', x), ('K', [y])])
                out.append([('Ks', x), ('P', [y])])
        out.append([('Ks', x), ('Nr', None)])
        out.append([('Pe', x), ('Nr', None)])
        out.append([('K', [x]), ('Nr', None)])
        out.append([('K', [x]), ('Nr', None), ('N', None)])
        if dflt:
            out.append([('Pe', x), ('A', [])])
            out.append([('Ks', x), ('A', [])])
    if dflt:
        out.append([('A', []), ('Nr', None)])
    return out


def ref_apply_m(spec_m, steps):
    kwo, poso, ann, ret = set(), set(), False, False
    for which, arg in steps:
        cur = c12.expected(spec_m, kwo, poso)
        if which == 'K':
            kwo |= set(arg)
        elif which == 'P':
            poso |= set(arg)
        elif which == 'Ks':
            kwo |= set(c12.start_names(cur, arg))
        elif which == 'Pe':
            poso |= set(c12.end_names(cur, arg))
        elif which == 'A':
            kwo |= set(c12.auto_names(cur, arg))
        elif which == 'Nr':
            ret = True
        else:
            ann = True
        c12.expected(spec_m, kwo, poso)
    return frozenset(kwo), frozenset(poso), ann, ret


def real_apply_m(f, spec_m, steps):
    from sigtools import modifiers
    g = f
    for which, arg in steps:
        if which == 'K':
            g = modifiers.kwoargs(*arg)(g)
        elif which == 'P':
            g = modifiers.posoargs(*arg)(g)
        elif which == 'Ks':
            g = modifiers.kwoargs(start=arg)(g)
        elif which == 'Pe':
            g = modifiers.posoargs(end=arg)(g)
        elif which == 'A':
            g = modifiers.autokwoargs(exceptions=arg)(g) if arg else modifiers.autokwoargs(g)
        elif which == 'Nr':
            g = modifiers.annotate('R')(g)
        else:
            g = modifiers.annotate(**{p.name: 'ann_' + p.name for p in spec_m if p.kind not in (VP, VK) and p.name != 'self'})(g)
    return g


def check_orders_method(spec, steps, stats):
    import sigtools
    spec = c12.with_defaults(spec)
    spec_m = (Par('self', PO if any(p.kind == PO for p in spec) else POK),) + tuple(spec)
    admissible = []
    for perm in itertools.permutations(steps):
        try:
            admissible.append((perm, ref_apply_m(spec_m, perm)))
        except c12.Inadmissible:
            pass
    stats.cls('A/method/%d-admissible-orders' % min(len(admissible), 3))
    case = {'part': 'A-method', 'spec': list(map(list, spec)), 'steps': [list(s) for s in steps]}
    names = tuple(p.name for p in spec if p.kind in (PO, POK, KWO))[:3] + ('q',)
    maxpos = cpbind.poscap(universe.spec_view(spec)) + 1
    label = {'K': 'kwoargs', 'P': 'posoargs', 'Ks': 'kwoargs(start=)', 'Pe': 'posoargs(end=)', 'A': 'autokwoargs(exceptions=)', 'N': 'annotate(params)', 'Nr': 'annotate(return)'}
    results = []
    for perm, fin in admissible:
        stats.case()
        f = realfn.plain_function(spec_m, 'm', cache=False)
        desc = ' then '.join('%s%s' % (label[w], a if a is not None else '') for w, a in perm)
        try:
            g = real_apply_m(f, spec_m, perm)
        except ValueError as e:
            stats.fail('C18/A/method/admissible-order-rejected', dict(case, order=[list(x) for x in perm]),
                       'def m(%s): applying %s raised ValueError(%s) although every step is admissible in that order' % (universe.spec_text(spec_m), desc, e))
            continue
        K = type('K', (object,), {'m': g})
        inst = K()
        kwo, poso, ann, ret = fin
        exp = c12.expected(spec_m, kwo, poso)
        if ann:
            exp = tuple(p._replace(ann=repr('ann_' + p.name)) if p.kind not in (VP, VK) and p.name != 'self' else p for p in exp)
        obs = {}
        bad = False
        for form, getobj, want_ps in (('class', lambda: K.m, exp), ('instance', lambda: inst.m, exp[1:])):
            try:
                o = getobj()
                sg = sigtools.signature(o)
                si = inspect.signature(o)
            except Exception as e:
                first = 'self' in (kwo | poso)
                stats.fail('C18/A/method/%saccess-raises-%s' % ('first-parameter-selected/' if first else '', type(e).__name__),
                           dict(case, order=[list(x) for x in perm], form=form),
                           'def m(%s): %s, then lookup on the %s raised %s: %s' % (universe.spec_text(spec_m), desc, form, type(e).__name__, e))
                bad = True
                break
            want = (tuple(p for p in want_ps if p.kind != KWO), frozenset(p for p in want_ps if p.kind == KWO), repr('R') if ret else repr(inspect.Signature.empty))
            for via, sgn in (('sigtools', sg), ('inspect', si)):
                ps = universe.spec_from_sig(sgn)
                got = (tuple(p for p in ps if p.kind != KWO), frozenset(p for p in ps if p.kind == KWO), repr(sgn.return_annotation))
                if got != want:
                    stats.fail('C18/A/method/advertised-%s' % ('return' if got[:2] == want[:2] else 'parameters'), dict(case, order=[list(x) for x in perm], form=form, via=via),
                               'def m(%s): %s advertises %s -> %s on the %s via %s.signature; expected (%s)%s' % (
                                   universe.spec_text(spec_m), desc, sgn, got[2], form, via, universe.spec_text(want_ps), ' -> R' if ret else ''))
                    bad = True
                    break
            if bad:
                break
            if form == 'instance':
                calls = []
                b = cpbind.binder(universe.spec_view(want_ps))
                for n in range(maxpos + 1):
                    for r in range(len(names) + 1):
                        for Kk in itertools.combinations(names, r):
                            try:
                                res = o(*[100 + i for i in range(n)], **{k: 'k_' + k for k in Kk})
                                res = 'ok'
                            except TypeError:
                                res = 'TypeError'
                            wantc = 'ok' if b.accepts(n, Kk) else 'TypeError'
                            if any(p.kind == PO and p.name in Kk for p in want_ps) and any(p.kind == VK for p in want_ps):
                                continue
                            if res != wantc:
                                stats.fail('C18/A/method/call', dict(case, order=[list(x) for x in perm], shape=[n, list(Kk)]),
                                           'def m(%s): %s; instance call with %d positionals and %s gives %s, the advertised (%s) says %s' % (
                                               universe.spec_text(spec_m), desc, n, list(Kk), res, universe.spec_text(want_ps), wantc))
                                bad = True
                                break
                        if bad:
                            break
                    if bad:
                        break
        if not bad:
            results.append(desc)
            # a further modifier applied to the bound object (binding used up self, possibly a name the stack converts)
            from sigtools import modifiers
            bound_ps = exp[1:]
            free = [p.name for p in bound_ps if p.kind == POK]
            if free:
                try:
                    again = modifiers.kwoargs(free[-1])(inst.m)
                    got = universe.spec_from_sig(sigtools.signature(again))
                    wantb = c12.expected(tuple(p._replace(ann=None) for p in bound_ps), {free[-1]}, set())
                    if [(p.name, p.kind) for p in got] != [(p.name, p.kind) for p in wantb] and \
                            sorted((p.name, p.kind) for p in got) != sorted((p.name, p.kind) for p in wantb):
                        stats.fail('C18/A/method/bound-then-decorated', dict(case, order=[list(x) for x in perm]),
                                   'def m(%s): %s, bound, then kwoargs(%r): advertises (%s), expected (%s)' % (
                                       universe.spec_text(spec_m), desc, free[-1], universe.spec_text(got), universe.spec_text(wantb)))
                except ValueError as e:
                    stats.fail('C18/A/method/bound-then-decorated', dict(case, order=[list(x) for x in perm]),
                               'def m(%s): %s, bound, then kwoargs(%r) raised ValueError: %s' % (universe.spec_text(spec_m), desc, free[-1], e))
    if len(results) >= 2 or any(w in ('Ks', 'Pe', 'Nr') for w, a in steps):
        stats.nontriv_enum()
        stats.sample('A/method', {'function': universe.spec_text(spec_m), 'orders': results})


def shard_orders(arg):
    specs, = arg
    st = Stats()
    for spec in specs:
        for steps in step_sets(spec):
            try:
                with time_budget(8):
                    check_orders(spec, steps, st)
            except BudgetExceeded:
                abandoned(st, 'a set of decoration steps (part A)')
        if not any(p.kind == PO for p in spec):
            for steps in method_step_sets(spec):
                try:
                    with time_budget(8):
                        check_orders_method(spec, steps, st)
                except BudgetExceeded:
                    abandoned(st, 'a set of decoration steps on a method (part A)')
        if st.extra['abandoned_cases'] >= 6:
            st.note('part A shard given up after %d abandoned step sets' % st.extra['abandoned_cases'])
            break
    return st


# ------------------------------------------------------------------------------ part B

CLASS_SRC = '''
import functools
from sigtools import modifiers, specifiers, wrappers

@wrappers.decorator
def deco(func, *args, dp=False, **kwargs):
    return ('deco', dp, func(*args, **kwargs))

def tf(x, y=2, *, z=3):
    return ('tf', x, y, z)

class Base(object):
    def __init__(self, marker):
        self.marker = marker
    # value objects: all instances are equal and hash alike -- caches must key on identity
    def __eq__(self, other):
        return isinstance(other, Base)
    def __hash__(self):
        return 1
    def target(self, x, y=2, *, z=3):
        return (self.marker, 'target', x, y, z)
    @modifiers.kwoargs('b')
    def kw(self, a, b=2):
        return (self.marker, 'kw', a, b)
    @modifiers.autokwoargs
    def auto(self, a, b=2, *args):
        return (self.marker, 'auto', a, b, args)
    @modifiers.posoargs(end='a')
    def pos(self, a, b=2):
        return (self.marker, 'pos', a, b)
    @specifiers.forwards_to_method('target')
    def fwd(self, a, *args, **kwargs):
        return (self.marker, 'fwd', a) + self.target(*args, **kwargs)
    @specifiers.forwards_to_method('target', emulate=True)
    def fwde(self, a, *args, **kwargs):
        return (self.marker, 'fwde', a) + self.target(*args, **kwargs)
    @deco
    def dec(self, x, y=2):
        return (self.marker, 'dec', x, y)
    # one function wrapped twice: two views of it in one class
    def _both(self, a, b=2):
        return (self.marker, 'both', a, b)
    kwv = modifiers.kwoargs('b')(_both)
    posv = modifiers.posoargs('self', 'a')(_both)
    # a function Python turns into a class method implicitly, under an emulate=True forger
    @specifiers.forwards_to_function(tf, emulate=True)
    def __class_getitem__(cls, a, *args, **kwargs):
        return ('cgi', cls.__name__, a) + tf(*args, **kwargs)
    # forwards to an attribute that only exists later (set by the 'late' rule)
    @specifiers.forwards_to_method('late', emulate=True)
    def fwdl(self, a, *args, **kwargs):
        return (self.marker, 'fwdl', a) + self.late(*args, **kwargs)

class Sub(Base):
    pass

class Bag(Base):
    # a container: an instance is false in a boolean context while it is empty, and calls / the toggle rule change that
    def __init__(self, marker):
        Base.__init__(self, marker)
        self.n = 0
    def __len__(self):
        return self.n
'''
METHODS = ['kw', 'auto', 'pos', 'fwd', 'fwde', 'dec', 'kwv', 'posv']
CALLS = {
    'kw': [((1,), {}), ((1,), {'b': 5}), ((), {'a': 1, 'b': 2})],
    'auto': [((1,), {}), ((1, 7, 8), {'b': 5}), ((1,), {'b': 3})],
    'pos': [((1,), {}), ((1, 5), {}), ((1,), {'b': 4})],
    'fwd': [((0, 1), {}), ((0, 1, 5), {'z': 9}), ((0,), {'x': 1})],
    'fwde': [((0, 1), {}), ((0, 1, 5), {'z': 9}), ((0,), {'x': 1})],
    'dec': [((1,), {}), ((1, 5), {'dp': True}), ((1,), {'y': 3})],
    'kwv': [((1,), {}), ((1,), {'b': 5}), ((1, 5), {})],
    'posv': [((1,), {}), ((1, 5), {}), ((), {'a': 1})],
}


def sig_text(getter, obj):
    try:
        return str(getter(obj))
    except Exception as e:
        return 'raised %s' % type(e).__name__


def call_text(obj, args, kwargs, marker=None):
    try:
        r = obj(*args, **kwargs)
    except Exception as e:
        return 'raised %s' % type(e).__name__
    return repr(r)


def pristine_model():
    """Signatures and call results computed once on a pristine copy of the classes."""
    import sigtools
    g = realfn.load(CLASS_SRC)
    model = {}
    for cls in ('Base', 'Sub', 'Bag'):
        inst = g[cls]('M')
        for m in METHODS:
            model[(cls, m, 'bound', 'sigtools')] = sig_text(sigtools.signature, getattr(inst, m))
            model[(cls, m, 'bound', 'inspect')] = sig_text(inspect.signature, getattr(inst, m))
            model[(cls, m, 'class', 'sigtools')] = sig_text(sigtools.signature, getattr(g[cls], m))
            model[(cls, m, 'class', 'inspect')] = sig_text(inspect.signature, getattr(g[cls], m))
            for i, (a, k) in enumerate(CALLS[m]):
                model[(cls, m, 'call', i)] = call_text(getattr(inst, m), a, k)
    realfn.unload(g)
    return model


_MODEL = None


def model():
    global _MODEL
    if _MODEL is None:
        _MODEL = pristine_model()
    return _MODEL


class History(object):
    """Interpreter for histories (used by the state machine, the exhaustive enumeration and replay)."""

    def __init__(self):
        self.g = realfn.load(CLASS_SRC)
        self.instances = {}      # id -> instance (strong)
        self.held = {}           # id -> list of objects obtained from that instance (strong)
        self.cls_of = {}
        self.dropped = {}        # id -> weakref
        self.next_id = 0
        self.log = []
        self.problems = []

    def close(self):
        realfn.unload(self.g)

    def create(self, cls):
        i = self.next_id
        self.next_id += 1
        self.instances[i] = self.g[cls]('I%d' % i)
        self.cls_of[i] = cls
        self.held[i] = []
        self.log.append(['create', cls])
        return i

    def pick(self, k):
        ids = sorted(self.instances)
        return ids[k % len(ids)] if ids else None

    def access(self, k, m, keep):
        i = self.pick(k)
        if i is None:
            return
        self.log.append(['access', k, m, keep])
        o1 = getattr(self.instances[i], m)
        o2 = getattr(self.instances[i], m)
        if keep:
            self.held[i].append(o1)
        a, kw = CALLS[m][0]
        r1, r2 = call_text(o1, a, kw), call_text(o2, a, kw)
        exp = model()[(self.cls_of[i], m, 'call', 0)].replace("'M'", "'I%d'" % i)
        if r1 != exp or r2 != exp:
            self.problems.append(('bound-to-wrong-instance-or-result', 'instance %d .%s: calls give %s / %s, model %s' % (i, m, r1, r2, exp)))

    def retrieve(self, k, m, via, where):
        import sigtools
        getter = sigtools.signature if via == 'sigtools' else inspect.signature
        self.log.append(['retrieve', k, m, via, where])
        if where == 'class':
            cls = ('Base', 'Sub')[k % 2]
            got = sig_text(getter, getattr(self.g[cls], m))
            exp = model()[(cls, m, 'class', via)]
        else:
            i = self.pick(k)
            if i is None:
                return
            got = sig_text(getter, getattr(self.instances[i], m))
            exp = model()[(self.cls_of[i], m, 'bound', via)]
        if got != exp:
            self.problems.append(('retrieval-differs', '%s.signature of %s %s gives %s, model %s' % (via, where, m, got, exp)))

    def call(self, k, m, c):
        i = self.pick(k)
        if i is None:
            return
        self.log.append(['call', k, m, c])
        a, kw = CALLS[m][c % len(CALLS[m])]
        got = call_text(getattr(self.instances[i], m), a, kw)
        exp = model()[(self.cls_of[i], m, 'call', c % len(CALLS[m]))].replace("'M'", "'I%d'" % i)
        if got != exp:
            self.problems.append(('call-differs', 'instance %d .%s(*%r, **%r) gives %s, model %s' % (i, m, a, kw, got, exp)))

    def late(self, k):
        """A retrieval that fails (the forwarded-to attribute does not exist yet), then the same
        retrieval on the same bound object once it exists: must give what a fresh object gives."""
        import sigtools
        from sigtools import specifiers
        i = self.pick(k)
        if i is None:
            return
        self.log.append(['late', k])
        inst = self.instances[i]
        had = 'late' in vars(inst)
        o = inst.fwdl
        before = (sig_text(inspect.signature, o), sig_text(sigtools.signature, o))
        inst.late = inst.target
        after = (sig_text(inspect.signature, o), sig_text(sigtools.signature, o))
        fresh = inst.fwdl
        ref = (sig_text(inspect.signature, fresh), sig_text(sigtools.signature, fresh))
        exp = model()[(self.cls_of[i], 'fwde', 'bound', 'inspect')]
        if after != ref or ref != (exp, exp):
            self.problems.append(('retrieval-after-failure-differs', 'instance %d .fwdl: %s (attribute missing) gave %s; once it exists the same object gives %s, a fresh one %s, model %s' % (
                i, 'first retrieval' if not had else 'retrieval', before, after, ref, exp)))
        if specifiers.as_forged.currently_computing:
            self.problems.append(('guard-not-empty', 'recursion guard holds %d object(s) after the retrievals' % len(specifiers.as_forged.currently_computing)))
            specifiers.as_forged.currently_computing.clear()

    def toggle(self, k):
        """A container instance becomes empty / non-empty (its truth value flips)."""
        i = self.pick(k)
        if i is None or self.cls_of[i] != 'Bag':
            return
        self.log.append(['toggle', k])
        self.instances[i].n = 1 - self.instances[i].n

    def classget(self, k):
        """The implicit class method, retrieved for the first time in this history or not: same answers."""
        cname = ('Base', 'Sub')[k % 2]
        cls = self.g[cname]
        self.log.append(['classget', k])
        want_sig = '(a, x, y=2, *, z=3)'
        want_call = repr(('cgi', cname, 0, 'tf', 1, 2, 3))
        for attempt in (1, 2):
            o = cls.__class_getitem__
            got = (sig_text(inspect.signature, o), call_text(o, (0, 1), {}), call_text(lambda *a: cls[a], (0, 1), {}) if False else None)
            if got[0] != want_sig or got[1] != want_call:
                self.problems.append(('implicit-classmethod-differs', '%s.__class_getitem__, retrieval %d of this step: signature %s, call %s; expected %s, %s' % (
                    cname, attempt, got[0], got[1], want_sig, want_call)))
                return

    def redecorate(self, m):
        """Apply a modifier to a fresh function and install it on Sub: must behave like the model's."""
        from sigtools import modifiers
        self.log.append(['redecorate', m])
        src = 'def kw(self, a, b=2):\n    return (self.marker, "kw", a, b)\n'
        gg = realfn.load(src, register=False)
        new = modifiers.kwoargs('b')(gg['kw'])
        setattr(self.g['Sub'], 'kw', new)

    def drop(self, k):
        i = self.pick(k)
        if i is None:
            return
        self.log.append(['drop', k])
        self.dropped[i] = weakref.ref(self.instances[i])
        del self.instances[i]
        del self.held[i]
        # an instance in a reference cycle of its own (inst.late = inst.target) that is also the key of a
        # weak-value cache entry needs one pass to collect the cached wrapper and another for itself
        for _ in range(3):
            gc.collect()
        alive = [j for j, w in self.dropped.items() if w() is not None]
        if alive:
            j = alive[0]
            ref = gc.get_referrers(self.dropped[j]())
            kinds = sorted(set(type(r).__name__ for r in ref))
            self.problems.append(('instance-not-reclaimed', 'instance %d (of %s) is still alive after every reference was dropped and gc.collect(); referrers: %s' % (j, self.cls_of[j], kinds)))


def run_history(ops, stats, enum=False):
    """ops: list of plain operations. Returns the History log."""
    stats.case()
    h = History()
    try:
        for op in ops:
            getattr(h, op[0])(*op[1:])
            if h.problems:
                break
        kinds = [o[0] for o in h.log]
        touched_then_drop = 'drop' in kinds and any(k in ('access', 'retrieve', 'call') for k in kinds[:kinds.index('drop')])
        multi = kinds.count('create') >= 2
        stats.cls('B/%s' % ('touch-then-drop' if touched_then_drop else 'multi-instance' if multi else 'other'))
        if touched_then_drop or multi:
            if enum:
                stats.nontriv_enum()
            else:
                stats.nontriv(h.log)
            stats.sample('B', {'history': h.log})
        for kind, msg in h.problems:
            meths = sorted(set(o[2] for o in h.log if o[0] in ('access', 'retrieve', 'call') and len(o) > 2))
            tag = ''
            if kind == 'instance-not-reclaimed':
                tag = '/' + '+'.join(sorted(set('modifiers' if m in ('kw', 'auto', 'pos') else 'forger' if m in ('fwd', 'fwde') else 'decorator' for m in meths))) if meths else '/untouched'
            stats.fail('C18/B/%s%s' % (kind, tag), {'part': 'B', 'history': h.log}, 'history %s: %s' % (h.log, msg))
    finally:
        h.close()
        gc.collect()


def st_history():
    from hypothesis import strategies as st
    op = st.one_of(
        st.tuples(st.just('create'), st.sampled_from(['Base', 'Sub', 'Bag', 'Bag'])),
        st.tuples(st.just('toggle'), st.integers(0, 3)),
        st.tuples(st.just('access'), st.integers(0, 3), st.sampled_from(METHODS), st.booleans()),
        st.tuples(st.just('retrieve'), st.integers(0, 3), st.sampled_from(METHODS), st.sampled_from(['sigtools', 'inspect']), st.sampled_from(['bound', 'class'])),
        st.tuples(st.just('call'), st.integers(0, 3), st.sampled_from(METHODS), st.integers(0, 2)),
        st.tuples(st.just('drop'), st.integers(0, 3)),
        st.tuples(st.just('redecorate'), st.just('kw')),
        st.tuples(st.just('late'), st.integers(0, 3)),
        st.tuples(st.just('classget'), st.integers(0, 1)),
    )
    return st.lists(op, min_size=2, max_size=30).map(lambda ops: [('create', 'Base')] + ops)


def check_hyp(ops, stats):
    run_history([list(o) for o in ops], stats)


def shard_hyp(arg):
    seed, n = arg
    st = Stats()
    hyp_search(st_history(), check_hyp, st, n, seed)
    return st


def machine_run(arg):
    """The same rules as a Hypothesis RuleBasedStateMachine (stateful mode; invariant after every step)."""
    seed, n = arg
    import hypothesis
    from hypothesis import strategies as st
    from hypothesis.stateful import RuleBasedStateMachine, rule, invariant, initialize, run_state_machine_as_test
    stats = Stats()

    class Machine(RuleBasedStateMachine):
        def __init__(self):
            super().__init__()
            self.h = History()
            stats.case()

        @initialize()
        def first(self):
            self.h.create('Base')

        @rule(k=st.integers(0, 3))
        def toggle(self, k):
            self.h.toggle(k)

        @rule(cls=st.sampled_from(['Base', 'Sub', 'Bag', 'Bag']))
        def create(self, cls):
            self.h.create(cls)

        @rule(k=st.integers(0, 3), m=st.sampled_from(METHODS), keep=st.booleans())
        def access(self, k, m, keep):
            self.h.access(k, m, keep)

        @rule(k=st.integers(0, 3), m=st.sampled_from(METHODS), via=st.sampled_from(['sigtools', 'inspect']), where=st.sampled_from(['bound', 'class']))
        def retrieve(self, k, m, via, where):
            self.h.retrieve(k, m, via, where)

        @rule(k=st.integers(0, 3), m=st.sampled_from(METHODS), c=st.integers(0, 2))
        def call(self, k, m, c):
            self.h.call(k, m, c)

        @rule(k=st.integers(0, 3))
        def drop(self, k):
            self.h.drop(k)

        @rule(k=st.integers(0, 3))
        def late(self, k):
            self.h.late(k)

        @rule(k=st.integers(0, 1))
        def classget(self, k):
            self.h.classget(k)

        @invariant()
        def agrees_with_model(self):
            if self.h.problems:
                kind, msg = self.h.problems[0]
                meths = sorted(set(o[2] for o in self.h.log if o[0] in ('access', 'retrieve', 'call') and len(o) > 2))
                tag = ''
                if kind == 'instance-not-reclaimed':
                    tag = '/' + '+'.join(sorted(set('modifiers' if m in ('kw', 'auto', 'pos') else 'forger' if m in ('fwd', 'fwde') else 'decorator' for m in meths))) if meths else '/untouched'
                stats.fail('C18/B/%s%s' % (kind, tag), {'part': 'B', 'history': self.h.log}, 'history %s: %s' % (self.h.log, msg))
                self.h.problems = []
                raise AssertionError(msg)

        def teardown(self):
            kinds = [o[0] for o in self.h.log]
            if 'drop' in kinds and any(k in ('access', 'retrieve', 'call') for k in kinds[:kinds.index('drop')]):
                stats.nontriv(self.h.log)
                stats.cls('B/machine/touch-then-drop')
            else:
                stats.cls('B/machine/other')
            self.h.close()

    try:
        run_state_machine_as_test(hypothesis.seed(seed)(Machine), settings=hypothesis.settings(
            hyp_settings(n, shrink=True), stateful_step_count=30))
    except AssertionError:
        pass
    except Exception as e:
        # Hypothesis replays a failing run while shrinking; a violation that depends on when weak
        # caches are cleared need not recur and is then reported as flaky.  The violation itself was
        # observed against the model and recorded with its full history before the replay.
        if not (type(e).__module__.startswith('hypothesis') and stats.failures):
            raise
        stats.notes.append('Hypothesis reported %s while shrinking a recorded failure' % type(e).__name__)
    return stats


# ------------------------------------------------------------------------------ part C

def make_deco(form, sel):
    from sigtools import modifiers
    if form == 'kwoargs':
        return modifiers.kwoargs(*sel)
    if form == 'posoargs':
        return modifiers.posoargs(*sel)
    if form == 'start':
        return modifiers.kwoargs(*sel[1:], start=sel[0])
    if form == 'end':
        return modifiers.posoargs(*sel[1:], end=sel[0])
    if form == 'auto':
        return modifiers.autokwoargs(exceptions=sel)
    if form == 'annotate':
        return modifiers.annotate(**dict((n, 'ann_' + n) for n in sel))
    raise AssertionError(form)


def behaviour(g, spec):
    """Advertised signature and call outcomes of a decorated function (or 'ValueError')."""
    import sigtools
    if isinstance(g, str):
        return g
    names = tuple(p.name for p in spec if p.kind in (PO, POK, KWO))[:4]
    cap = sum(1 for p in spec if p.kind in (PO, POK))
    out = [str(sigtools.signature(g)), str(inspect.signature(g))]
    for n in range(cap + 2):
        for r in range(len(names) + 1):
            for K in itertools.combinations(names, r):
                try:
                    v = g(*[100 + i for i in range(n)], **{k: 'k_' + k for k in K})
                    v = dict(v)
                    v.pop('__fn__', None)
                    out.append(repr(sorted(v.items())))
                except TypeError:
                    out.append('TypeError')
    return out


def check_reuse(case, stats):
    """One decorator object applied to several functions: the second (third) application behaves like a fresh decorator object."""
    spec1, spec2, form, sel = case
    stats.case()
    spec1, spec2 = c12.with_defaults(tuple(spec1)), c12.with_defaults(tuple(spec2))

    def apply(deco, spec):
        try:
            return deco(c12.twin(realfn.plain_function(spec, 'f')))
        except ValueError:
            return 'ValueError'
    try:
        deco = make_deco(form, sel)
        fresh = make_deco(form, sel)
    except ValueError:
        stats.cls('C/decorator-construction-raises')
        return
    first = apply(deco, spec1)
    second = apply(deco, spec2)
    again = apply(deco, spec1)
    want2 = apply(fresh, spec2)
    want1 = apply(make_deco(form, sel), spec1)
    desc = '%s%r applied to def f(%s), then to def f(%s)' % (form, sel, universe.spec_text(spec1), universe.spec_text(spec2))
    jc = {'part': 'C', 'spec1': [list(p) for p in spec1], 'spec2': [list(p) for p in spec2], 'form': form, 'sel': sel}
    b2, w2 = behaviour(second, spec2), behaviour(want2, spec2)
    stats.cls('C/%s/%s-then-%s' % (form, 'raises' if first == 'ValueError' else 'applies', 'raises' if w2 == 'ValueError' else 'applies'))
    if b2 != w2:
        diff = next((i for i, (x, y) in enumerate(zip(b2, w2)) if x != y), None) if not isinstance(b2, str) and not isinstance(w2, str) else None
        stats.fail('C18/C/second-use-differs/%s' % form, jc,
                   '%s: the second function %s, a fresh decorator object gives %s' % (
                       desc, b2 if isinstance(b2, str) else 'advertises %s / %s (first differing observation #%s: %s)' % (b2[0], b2[1], diff, b2[diff] if diff is not None else '-'),
                       w2 if isinstance(w2, str) else '%s / %s (%s)' % (w2[0], w2[1], w2[diff] if diff is not None else '-')))
        return
    b1, w1 = behaviour(again, spec1), behaviour(want1, spec1)
    if b1 != w1:
        stats.fail('C18/C/third-use-differs/%s' % form, jc, '%s and to the first again: %s, a fresh decorator object gives %s' % (
            desc, b1 if isinstance(b1, str) else b1[:2], w1 if isinstance(w1, str) else w1[:2]))
        return
    if first != 'ValueError' and want2 != 'ValueError' and spec1 != spec2:
        stats.nontriv(('C', form, tuple(sel), universe.spec_text(spec1), universe.spec_text(spec2)))
        stats.sample('C/' + form, {'decorator': '%s%r' % (form, sel), 'first': universe.spec_text(spec1), 'second': universe.spec_text(spec2), 'advertised': b2[0]})


def st_reuse():
    from hypothesis import strategies as st
    names = ('a', 'b', 'c', 'd')

    @st.composite
    def pokspec(draw):
        # the same names as ordinary parameters in another order (what a decorator object remembers about one function
        # then means something else for the next)
        ns = list(draw(st.permutations(names)))[:draw(st.integers(2, 4))]
        first_default = draw(st.integers(0, len(ns)))
        spec = [Par(n, POK, '1' if i >= first_default else None, None) for i, n in enumerate(ns)]
        if draw(st.integers(0, 3)) == 0:
            spec.append(Par('args', VP, None, None))
        if draw(st.integers(0, 3)) == 0:
            spec.append(Par('kwargs', VK, None, None))
        return tuple(spec)

    @st.composite
    def build(draw):
        gen = pokspec() if draw(st.booleans()) else universe.st_spec(names, 4, ('args',), ('kwargs',))
        s1 = draw(gen)
        s2 = draw(gen)
        form = draw(st.sampled_from(['kwoargs', 'posoargs', 'start', 'start', 'end', 'end', 'auto', 'annotate']))
        if form in ('start', 'end'):
            sel = [draw(st.sampled_from(names))] + draw(st.lists(st.sampled_from(names), max_size=1))
        else:
            sel = draw(st.lists(st.sampled_from(names), min_size=0 if form == 'auto' else 1, max_size=2, unique=True))
        return ([list(p) for p in s1], [list(p) for p in s2], form, sel)
    return build()


def check_reuse_hyp(case, stats):
    s1, s2, form, sel = case
    check_reuse((tuple(Par(*p) for p in s1), tuple(Par(*p) for p in s2), form, sel), stats)


def check_non_descriptors(stats):
    """Binding on other kinds of callables: a modifier over something that is no descriptor (a class -- even one whose
    instances are descriptors --, a callable object that hands unknown attributes on to the function it holds) is found
    through a class and through its instances as it is, every time, with the same signature and the same results."""
    import sigtools
    from sigtools import modifiers
    ns = {}
    exec('class Field(object):\n'
         '    def __init__(self, a, b=2):\n        self.got = {"a": a, "b": b}\n'
         '    def __get__(self, instance, owner):\n        return ("field of", instance)\n'
         '    def __eq__(self, other):\n        return type(other) is Field and other.got == self.got\n'
         '    __hash__ = None\n'
         'class Holder(object):\n'
         '    def __init__(self, f):\n        self.f = f\n'
         '    def __call__(self, *args, **kwargs):\n        return self.f(*args, **kwargs)\n'
         '    def __getattr__(self, name):\n        return getattr(self.f, name)\n'
         'def plain(a, b=2):\n    return {"a": a, "b": b}\n', ns)
    objs = (('a class whose instances are descriptors', ns['Field']), ('a callable object that passes attribute lookups on to a function', ns['Holder'](ns['plain'])))
    decos = (('autokwoargs', lambda: modifiers.autokwoargs), ("kwoargs('b')", lambda: modifiers.kwoargs('b')),
             ("posoargs('a')", lambda: modifiers.posoargs('a')), ("kwoargs(start='b')", lambda: modifiers.kwoargs(start='b')))
    calls = [((1,), {}), ((1,), {'b': 5}), ((1, 5), {}), ((), {'a': 1}), ((), {})]
    for olabel, obj in objs:
        for dlabel, deco in decos:
            stats.case()
            stats.cls('D/non-descriptor under a modifier')
            case = {'part': 'D', 'object': olabel, 'decorator': dlabel}
            try:
                g = deco()(obj)
                owner = type('Owner', (object,), {'m': g})
                inst = owner()
                views = []
                for where, getter in (('directly', lambda: g), ('through the class', lambda: owner.m), ('through an instance', lambda: inst.m),
                                      ('through the instance again', lambda: inst.m), ('through a second instance', lambda: owner().m)):
                    x = getter()
                    res = []
                    for a, k in calls:
                        try:
                            r = x(*a, **k)
                            res.append(getattr(r, 'got', r))
                        except TypeError:
                            res.append('TypeError')
                    views.append((where, str(sigtools.signature(x)), str(inspect.signature(x)), res))
            except Exception as e:
                stats.fail('C18/D/raised-%s' % type(e).__name__, case, '%s over %s, stored on a class and looked up: %s: %s' % (dlabel, olabel, type(e).__name__, e))
                continue
            bad = [v for v in views[1:] if v[1:] != views[0][1:]]
            if bad:
                stats.fail('C18/D/lookup-changes-it', case, '%s over %s: used %s it has signature %s / %s and results %r, %s: %s / %s and %r' % (
                    (dlabel, olabel) + views[0] + bad[0]))
            else:
                stats.nontriv(('D', olabel, dlabel))


def check_annotate_after_binding(stats):
    """annotate applied over a modifier that was already bound (and whose bound wrapper is still held): from then on every
    view advertises the annotation -- the held object, a fresh lookup on the same instance, another instance, the class."""
    import sigtools
    from sigtools import modifiers
    for dlabel, deco, plain, ann in (("kwoargs('b')", lambda: modifiers.kwoargs('b'), '(a, *, b=2)', '(a: int, *, b=2)'),
                                     ("posoargs('self', 'a')", lambda: modifiers.posoargs('self', 'a'), '(a, /, b=2)', '(a: int, /, b=2)'),
                                     ('autokwoargs', lambda: modifiers.autokwoargs, '(a, *, b=2)', '(a: int, *, b=2)')):
        for hold in (True, False):
            stats.case()
            stats.cls('E/annotate after binding')
            case = {'part': 'E', 'decorator': dlabel, 'held': hold}
            ns = {}
            exec('def m(self, a, b=2):\n    return (a, b)\n', ns)
            try:
                owner = type('Owner', (object,), {'m': deco()(ns['m'])})
                x = owner()
                held = x.m if hold else None
                first = str(sigtools.signature(x.m))
                modifiers.annotate(a=int)(owner.__dict__['m'])
                views = [('the object obtained before', str(sigtools.signature(held))) if hold else ('(nothing held)', ann),
                         ('the same instance, looked up again', str(sigtools.signature(x.m))),
                         ('the same instance, through inspect', str(inspect.signature(x.m))),
                         ('another instance', str(sigtools.signature(owner().m))),
                         ('the class', str(sigtools.signature(owner.m)).replace('(self, ', '('))]
            except Exception as e:
                stats.fail('C18/E/raised-%s' % type(e).__name__, case, '%s on a method, bound, then annotate(a=int) on the class attribute: %s: %s' % (dlabel, type(e).__name__, e))
                continue
            bad = [v for v in views if v[1] != ann]
            if first != plain or bad:
                stats.fail('C18/E/annotate-after-binding', case, '%s on def m(self, a, b=2), looked up on an instance (%s), then annotate(a=int) applied to the class '
                           'attribute: before %s; afterwards %s; expected %s everywhere' % (dlabel, 'result held' if hold else 'result dropped', first, bad or views, ann))
            else:
                stats.nontriv(('E', dlabel, hold))
            del held


def shard_fixed(arg):
    st = Stats()
    check_non_descriptors(st)
    check_annotate_after_binding(st)
    return st


def shard_reuse(arg):
    seed, n = arg
    st = Stats()
    hyp_search(st_reuse(), check_reuse_hyp, st, n, seed)
    return st


def enum_histories(arg):
    """Exhaustive sequences (length <= L) over a reduced alphabet, all starting with create."""
    prefix, L = arg
    st = Stats()
    alphabet = [['access', 0, 'kw', True], ['access', 0, 'fwde', False], ['access', 1, 'dec', True], ['retrieve', 0, 'kw', 'inspect', 'bound'],
                ['retrieve', 1, 'fwd', 'sigtools', 'bound'], ['call', 0, 'auto', 1], ['create', 'Sub'], ['drop', 0], ['drop', 1]]
    for n in range(0, L - len(prefix)):
        for tail in itertools.product(alphabet, repeat=n):
            run_history([['create', 'Base']] + [list(p) for p in prefix] + [list(t) for t in tail], st, enum=True)
    return st


def run(ctx):
    total = Stats()
    U3 = universe.enum_specs(('a', 'b', 'c'), 3, ('args',), ('kwargs',))
    U3 = [s for s in U3 if sum(1 for p in s if p.kind == POK) >= 2]
    specs = ctx.stride(U3, ctx.pick(0.1, 1.0))
    total.merge(ctx.pmap(shard_orders, [(specs[i::64],) for i in range(64) if specs[i::64]]))
    if not ctx.quick:
        total.exhaustive['A: functions of the <=3-named universe with >=2 positional-or-keyword parameters x step sets x all orders'] = len(U3)
    nh = ctx.pick(1600, 24000)
    total.merge(ctx.pmap(shard_hyp, [(s, nh // 16) for s in ctx.shard_seeds(16)]))
    nm = ctx.pick(160, 3200)
    total.merge(ctx.pmap(machine_run, [(s, nm // 16) for s in ctx.shard_seeds(16)]))
    total.merge(ctx.pmap(shard_fixed, [0]))
    nr = ctx.pick(3200, 64000)
    total.merge(ctx.pmap(shard_reuse, [(s + 70, nr // 16) for s in ctx.shard_seeds(16)]))
    alphabet_n = 9
    L = ctx.pick(4, 5)
    alphabet = [['access', 0, 'kw', True], ['access', 0, 'fwde', False], ['access', 1, 'dec', True], ['retrieve', 0, 'kw', 'inspect', 'bound'],
                ['retrieve', 1, 'fwd', 'sigtools', 'bound'], ['call', 0, 'auto', 1], ['create', 'Sub'], ['drop', 0], ['drop', 1]]
    total.merge(ctx.pmap(enum_histories, [([a], L) for a in alphabet]))
    total.exhaustive['B: rule sequences of length <= %d over a 9-letter alphabet' % L] = sum(alphabet_n ** k for k in range(1, L))
    return total


def replay(case, stats):
    if case.get('part') == 'A-method':
        spec = tuple(Par(*p) for p in case['spec'])
        spec = tuple(p._replace(default='1') if p.default is not None else p for p in spec)
        check_orders_method(spec, [tuple(x) if not isinstance(x[1], list) else (x[0], x[1]) for x in case['steps']], stats)
    elif case.get('part') == 'B':
        run_history(case['history'], stats)
    elif case.get('part') == 'D':
        check_non_descriptors(stats)
    elif case.get('part') == 'E':
        check_annotate_after_binding(stats)
    elif case.get('part') == 'C':
        check_reuse((tuple(Par(*p) for p in case['spec1']), tuple(Par(*p) for p in case['spec2']), case['form'], case['sel']), stats)
    else:
        spec = tuple(Par(*p) for p in case['spec'])
        spec = tuple(p._replace(default='1') if p.default is not None else p for p in spec)
        check_orders(spec, [tuple(s) for s in case['steps']], stats, enum=False)
