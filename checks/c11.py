"""C11 -- postponed (PEP 563) annotations resolve in their defining context throughout.

Domain: tuples of functions with annotations (spellings X, Y, Z) on arbitrary subsets of
their parameters and on the return value, each function compiled in a module environment
that binds the spellings to objects -- shared between the functions or one per function,
including the same spelling bound to different objects and different spellings of one
object -- and compiled twice: eagerly and with `from __future__ import annotations` (also
mixed within one tuple).  Operations: retrieval (signatures.signature, sigtools.signature),
merge, embed, mask, forwards (incl. partial=True), functools.partial, modifiers.kwoargs /
posoargs / autokwoargs, modifiers.annotate, automatic discovery through a wrapper.

Oracle:
 (a) ground truth: every parameter / return annotation of a result with a single defining
     function gives, through upgraded_annotation.source_value() and through evaluated(), the
     object its spelling denotes in the globals of that function;
 (b) twin relation: op(postponed or mixed functions).evaluated() equals op(eager twins) in
     every annotation (object identity), parameter by parameter, and in the return annotation;
 (c) values given to modifiers.annotate come back identical.
"""
import functools
import itertools
import linecache

from vlib import universe
from vlib.framework import Stats, hyp_search
from vlib.universe import Par, PO, POK, VP, KWO, VK

LEVEL = 'exploration'
RULE = ('non-trivial: >=1 annotated parameter (or return annotation) survives into the result and some function of the case is compiled with the '
        'future flag in globals of its own (or the case uses modifiers.annotate); distinct by (operation, function sources, environments, flags)')
ASSUMPTIONS = ['annotation objects are distinct classes and an int, compared by identity (`is`); the compound spellings list[X] and (Y, 0) build a '
               'new object per evaluation and are compared structurally down to those objects',
               'the twin relation is checked on operations whose eager and postponed runs either both return or both raise']

SPELL = ('X', 'Y', 'Z')


class A1(object):
    pass


class A2(object):
    pass


class A3(object):
    pass


OBJS = [A1, A2, A3, 7]
# a loaded module that binds the spellings differently: functions may claim it as their
# __module__ (re-exports, exec'd code) while their globals are another dictionary
import sys as _sys
import types as _types
_decoy = _types.ModuleType('verif_c11_decoy')
_decoy.X, _decoy.Y, _decoy.Z = A3, A3, A1
_sys.modules['verif_c11_decoy'] = _decoy
_counter = itertools.count()
EMPTY = object()
# spellings that build a new (equal) object every time they are evaluated
COMPOUND = ('list[X]', '(Y, 0)')


def same(a, b):
    """Identity, or for the compound spellings equality of the freshly built objects."""
    if a is b:
        return True
    if isinstance(a, tuple) and isinstance(b, tuple):
        return len(a) == len(b) and all(same(x, y) for x, y in zip(a, b))
    if isinstance(a, _types.GenericAlias) and isinstance(b, _types.GenericAlias):
        return a.__origin__ is b.__origin__ and same(a.__args__, b.__args__)
    return False


def denote(sp, env):
    """What a spelling denotes in an environment (by construction: the grammar of spellings is ours)."""
    if sp == 'list[X]':
        return list[env['X']]
    if sp == '(Y, 0)':
        return (env['Y'], 0)
    return env[sp]


def st_case():
    from hypothesis import strategies as st

    def ann(draw):
        return draw(st.sampled_from([None, None, None, 'X', 'X', 'Y', 'Z', 'X', 'Y', 'list[X]', '(Y, 0)']))

    @st.composite
    def fn(draw, names, need_stars=False, max_named=3):
        spec = draw(universe.st_spec(names, max_named=max_named, p_star=1.0 if need_stars else 0.3))
        spec = [[p.name, p.kind, p.default, ann(draw)] for p in spec]
        return {'spec': spec, 'ret': ann(draw)}

    @st.composite
    def build(draw):
        op = draw(st.sampled_from(['retrieve', 'merge', 'merge', 'merge3', 'embed', 'mask', 'forwards', 'forwards_partial', 'partial',
                                   'kwoargs', 'posoargs', 'autokwoargs', 'annotate', 'discovery', 'discovery_chain', 'discovery_twice',
                                   'replace_mixed', 'replace_annotation_removed', 'wraps', 'wraps', 'retrieve_class', 'retrieve_instance', 'runtime_annotation']))
        nfun = {'merge': 2, 'merge3': 3, 'embed': 2, 'forwards': 2, 'forwards_partial': 2, 'discovery': 2, 'discovery_chain': 3,
                'discovery_twice': 2, 'wraps': 2}.get(op, 1)
        if op in ('merge', 'merge3'):
            base = draw(fn(('a', 'b', 'c')))
            funcs = []
            for i in range(nfun):
                f = {'spec': [list(p) for p in base['spec']], 'ret': ann(draw)}
                for p in f['spec']:
                    p[3] = ann(draw)
                funcs.append(f)
        elif op in ('embed', 'forwards', 'forwards_partial', 'discovery', 'discovery_chain', 'discovery_twice'):
            funcs = [draw(fn(('a', 'b'), need_stars=True, max_named=2))]
            for i in range(1, nfun):
                last = i == nfun - 1
                funcs.append(draw(fn(('x', 'y', 'z') if last else ('m', 'n'), need_stars=not last, max_named=3 if last else 1)))
        elif op == 'wraps':
            # f0 behind a functools.wraps wrapper written in (and compiled with the flags of) the second function's module
            funcs = [draw(fn(('a', 'b', 'c'))), {'spec': [['args', VP, None, None], ['kwargs', VK, None, None]], 'ret': None}]
        else:
            funcs = [draw(fn(('a', 'b', 'c')))]
        envmode = draw(st.sampled_from(['shared', 'own-same', 'own-clash', 'own-alias']))
        nenv = 1 if envmode == 'shared' else nfun
        envs = []
        for i in range(nenv):
            if envmode in ('shared', 'own-same') or i == 0:
                envs.append({'X': 0, 'Y': 1, 'Z': 2})
            elif envmode == 'own-clash':
                envs.append(draw(st.sampled_from([{'X': 1, 'Y': 0, 'Z': 2}, {'X': 2, 'Y': 1, 'Z': 0}, {'X': 3, 'Y': 1, 'Z': 2}])))
            else:
                envs.append(draw(st.sampled_from([{'X': 1, 'Y': 0, 'Z': 2}, {'X': 0, 'Y': 0, 'Z': 0}, {'X': 2, 'Y': 2, 'Z': 1}])))
        flags = [draw(st.sampled_from([True, True, True, False])) for _ in range(nfun)]
        extra = {'n': draw(st.integers(0, 2)), 'pick': draw(st.integers(0, 5)), 'annvals': [draw(st.integers(0, 3)) for _ in range(3)],
                 'annret': draw(st.sampled_from([None, 0, 1, 3, 'NONE']))}
        return {'op': op, 'funcs': funcs, 'envmode': envmode, 'envs': envs, 'flags': flags, 'extra': extra,
                'decoy_module': draw(st.integers(0, 3)) == 0}
    return build()


def fsrc(f, name, body='return 0'):
    spec = tuple(Par(*p) for p in f['spec'])
    ret = ' -> %s' % f['ret'] if f['ret'] else ''
    return 'def %s(%s)%s:\n    %s\n' % (name, universe.spec_text(spec), ret, body)


def compile_funcs(case, postponed_flags, bodies=None):
    """Compile every function of the case in its environment; returns (functions, envs dicts, cleanup list)."""
    envs = []
    nfun = len(case['funcs'])
    for e in case['envs']:
        envs.append(dict((k, OBJS[v]) for k, v in e.items()))
    fns = []
    files = []
    for i, f in enumerate(case['funcs']):
        env = envs[0] if case['envmode'] == 'shared' else envs[i]
        g = env if case['envmode'] == 'shared' else env
        g.setdefault('__name__', 'verif_c11_decoy' if case.get('decoy_module') else 'verifenv%d' % (0 if case['envmode'] == 'shared' else i))
        g['functools'] = functools
        body = (bodies or {}).get(i, 'return 0')
        src = ('from __future__ import annotations\n' if postponed_flags[i] else '') + fsrc(f, 'f%d' % i, body)
        fn = '<verif-c11-%d>' % next(_counter)
        linecache.cache[fn] = (len(src), None, src.splitlines(True), fn)
        files.append(fn)
        exec(compile(src, fn, 'exec', dont_inherit=True), g)
        fns.append(g['f%d' % i])
    return fns, envs, files


def env_of(case, envs, i):
    return envs[0] if case['envmode'] == 'shared' else envs[i]


def run_op(case, fns):
    """Apply the case's operation; returns the resulting signature (ValueError propagates)."""
    import sigtools
    from sigtools import modifiers, signatures
    op = case['op']
    ex = case['extra']
    sig = signatures.signature
    if op == 'retrieve':
        return sigtools.signature(fns[0]) if ex['pick'] % 2 else sig(fns[0])
    if op in ('merge', 'merge3'):
        return signatures.merge(*[sig(f) for f in fns])
    if op == 'embed':
        return signatures.embed(sig(fns[0]), sig(fns[1]))
    if op == 'mask':
        names = [p[0] for p in case['funcs'][0]['spec'] if p[1] in (POK, KWO)]
        pos = [p[0] for p in case['funcs'][0]['spec'] if p[1] in (PO, POK)]
        n = min(ex['n'], len(pos))
        named = [x for x in names if x not in pos[:n]][-1:] if ex['pick'] % 2 else []
        return signatures.mask(sig(fns[0]), n, *named)
    if op in ('forwards', 'forwards_partial'):
        pos = [p[0] for p in case['funcs'][1]['spec'] if p[1] in (PO, POK)]
        return signatures.forwards(sig(fns[0]), sig(fns[1]), min(ex['n'], len(pos)), partial=op == 'forwards_partial')
    if op == 'partial':
        pos = [p[0] for p in case['funcs'][0]['spec'] if p[1] in (PO, POK)]
        kws = [p[0] for p in case['funcs'][0]['spec'] if p[1] in (POK, KWO)]
        n = min(ex['n'], len(pos))
        kw = dict((k, None) for k in [x for x in kws if x not in pos[:n]][-1:]) if ex['pick'] % 2 else {}
        p = functools.partial(fns[0], *([0] * n), **kw)
        return sigtools.signature(p) if ex['pick'] % 3 else sig(p)
    if op in ('kwoargs', 'posoargs', 'autokwoargs'):
        pok = [p[0] for p in case['funcs'][0]['spec'] if p[1] == POK]
        if op == 'kwoargs':
            if not pok:
                return sig(fns[0])
            d = modifiers.kwoargs(pok[-1])(fns[0])
        elif op == 'posoargs':
            if not pok:
                return sig(fns[0])
            d = modifiers.posoargs(end=pok[0])(fns[0])
        else:
            d = modifiers.autokwoargs(fns[0])
        return sigtools.signature(d)
    if op in ('discovery', 'discovery_chain', 'discovery_twice'):
        return sigtools.signature(fns[0])
    if op == 'wraps':
        import __future__
        env = fns[1].__globals__
        flag = fns[1].__code__.co_flags & __future__.annotations.compiler_flag
        src = 'def _mk(f):\n    @functools.wraps(f)\n    def _w(*args, **kwargs):\n        return f(*args, **kwargs)\n    return _w\n'
        # (its source can be read: automatic discovery looks at the wrapper's body)
        wfn = '<verif-c11-wraps-%d>' % next(_counter)
        linecache.cache[wfn] = (len(src), None, src.splitlines(True), wfn)
        exec(compile(src, wfn, 'exec', flag, dont_inherit=True), env)
        w = env['_mk'](fns[0])
        if ex['pick'] % 3 == 0:
            w = functools.partial(w)        # ... and a partial object over the wrapper
        return sigtools.signature(w) if ex['pick'] % 2 else sig(w)
    if op in ('retrieve_class', 'retrieve_instance'):
        # the same def as __init__ of a class / __call__ of an instance (objects without code of their own)
        import __future__
        f = case['funcs'][0]
        env = fns[0].__globals__
        flag = fns[0].__code__.co_flags & __future__.annotations.compiler_flag
        meth = '__init__' if op == 'retrieve_class' else '__call__'
        spec = universe.spec_text(tuple(Par(*p) for p in f['spec']))
        has_po = any(p[1] == PO for p in f['spec'])
        head = 'self, /' if has_po and not spec else 'self, ' + spec if not has_po else 'self, ' + spec
        ret = ' -> %s' % f['ret'] if f['ret'] and op == 'retrieve_instance' else ''
        src = 'class _K(object):\n    def %s(%s)%s:\n        return None\n' % (meth, head.rstrip(', '), ret)
        exec(compile(src, '<verif-c11-class>', 'exec', flag, dont_inherit=True), env)
        target = env['_K'] if op == 'retrieve_class' else env['_K']()
        return sigtools.signature(target) if ex['pick'] % 2 else sig(target)
    if op == 'runtime_annotation':
        # an annotation put into __annotations__ at run time is a value, whatever the module's future flag says
        named = [p[0] for p in case['funcs'][0]['spec']]
        if named:
            fns[0].__annotations__[named[0]] = OBJS[3]
        return sigtools.signature(fns[0]) if ex['pick'] % 2 else sig(fns[0])
    if op == 'replace_annotation_removed':
        # every second parameter gets its annotation taken away with replace(annotation=empty): gone for good, in every view
        s0 = sigtools.signature(fns[0]) if ex['pick'] % 2 else sig(fns[0])
        ps = list(s0.parameters.values())
        return s0.replace(parameters=[q.replace(annotation=q.empty) if i % 2 == 0 else q for i, q in enumerate(ps)])
    if op == 'replace_mixed':
        # a parameter list mixing the signature's own parameters with a plain inspect.Parameter (deprecated, accepted)
        import inspect
        import warnings
        s0 = sigtools.signature(fns[0]) if ex['pick'] % 2 else sig(fns[0])
        ps = list(s0.parameters.values())
        cut = len(ps) - 1 if ps and ps[-1].kind == VK else len(ps)
        with warnings.catch_warnings():
            warnings.simplefilter('ignore')
            return s0.replace(parameters=ps[:cut] + [inspect.Parameter('zz_extra', inspect.Parameter.KEYWORD_ONLY, default=0)] + ps[cut:])
    raise ValueError(op)


def bodies_for(case):
    if case['op'] == 'discovery':
        return {0: 'return f1(%s)' % stars(case['funcs'][0])}
    if case['op'] == 'discovery_chain':
        return {0: 'return f1(%s)' % stars(case['funcs'][0]), 1: 'return f2(%s)' % stars(case['funcs'][1])}
    if case['op'] == 'discovery_twice':
        # two forwarding calls: the wrapper's own signature is merged with itself
        return {0: 'f1(%s)\n    return f1(%s)' % (stars(case['funcs'][0]), stars(case['funcs'][0]))}
    return None


def stars(f):
    out = []
    for p in f['spec']:
        if p[1] == VP:
            out.append('*' + p[0])
        elif p[1] == VK:
            out.append('**' + p[0])
    return ', '.join(out)


def link(case, fns, envs):
    """Discovery: the wrapper finds its callee as a global of its own module."""
    if case['op'] in ('discovery', 'discovery_chain', 'discovery_twice'):
        for i in range(len(fns) - 1):
            fns[i].__globals__['f%d' % (i + 1)] = fns[i + 1]


def annotations_of(sig, evaluated):
    """{name: object or EMPTY} incl. 'return', through source_value() or through evaluated()."""
    out = {}
    if evaluated:
        ev = sig.evaluated()
        for p in ev.parameters.values():
            out[p.name] = EMPTY if p.annotation is p.empty else p.annotation
        out['return'] = EMPTY if ev.return_annotation is ev.empty else ev.return_annotation
    else:
        for p in sig.parameters.values():
            v = p.upgraded_annotation.source_value()
            out[p.name] = EMPTY if v is p.empty else v
        v = sig.upgraded_return_annotation.source_value()
        out['return'] = EMPTY if v is sig.empty else v
    return out


def raw_annotations(sig):
    """{name: raw annotation or EMPTY} incl. 'return' -- what plain inspect users see."""
    out = {}
    for p in sig.parameters.values():
        out[p.name] = EMPTY if p.annotation is p.empty else p.annotation
    out['return'] = EMPTY if sig.return_annotation is sig.empty else sig.return_annotation
    return out


def show(d):
    return dict((k, '-' if v is EMPTY else v.__name__ if isinstance(v, type) else repr(v)) for k, v in d.items())


def check_case(case, stats):
    from sigtools import specifiers
    specifiers.as_forged.currently_computing.clear()
    stats.case()
    if case['op'] == 'annotate':
        return check_annotate(case, stats)
    nfun = len(case['funcs'])
    files = []
    try:
        bodies = bodies_for(case)
        efns, eenvs, f1 = compile_funcs(case, [False] * nfun, bodies)
        files += f1
        link(case, efns, eenvs)
        pfns, penvs, f2 = compile_funcs(case, case['flags'], bodies)
        files += f2
        link(case, pfns, penvs)
        desc = '%s over\n%s' % (case['op'], '\n'.join(
            '[env %s, %s] %s' % ({k: getattr(OBJS[v], '__name__', OBJS[v]) for k, v in (case['envs'][0] if case['envmode'] == 'shared' else case['envs'][i]).items()},
                                 'postponed' if case['flags'][i] else 'eager', fsrc(f, 'f%d' % i, (bodies or {}).get(i, 'return 0')).strip())
            for i, f in enumerate(case['funcs'])))
        try:
            E = run_op(case, efns)
            eerr = None
        except ValueError as e:
            E, eerr = None, e
        try:
            P = run_op(case, pfns)
            perr = None
        except ValueError as e:
            P, perr = None, e
        except Exception as e:
            stats.fail('C11/%s/raised-%s' % (case['op'], type(e).__name__), case, '%s raised %s: %s with the future flag (eager twins: %s)' % (desc, type(e).__name__, e, E if eerr is None else eerr))
            return
        stats.cls('%s/%s/%s' % (case['op'], case['envmode'], 'all-postponed' if all(case['flags']) else 'mixed' if any(case['flags']) else 'all-eager'))
        if (eerr is None) != (perr is None):
            stats.fail('C11/%s/raise-mismatch' % case['op'], case, '%s: eager twins -> %s, with the future flag -> %s' % (desc, E if eerr is None else 'ValueError(%s)' % eerr, P if perr is None else 'ValueError(%s)' % perr))
            return
        if eerr is not None:
            stats.cls('both-raise')
            return
        want = raw_annotations(E)
        # raw and upgraded annotations of one result tell the same story
        for label, sig in (('eager twins', E), ('flagged functions', P)):
            try:
                up = annotations_of(sig, evaluated=False)
            except Exception as e:
                stats.fail('C11/%s/evaluation-raised-%s' % (case['op'], type(e).__name__), case, '%s -> %s (%s): source_value() raised %s: %s' % (desc, sig, label, type(e).__name__, e))
                return
            raw = raw_annotations(sig)
            stale = [k for k in up if (up[k] is EMPTY) != (raw[k] is EMPTY)]
            if stale:
                stats.fail('C11/%s/raw-vs-upgraded' % case['op'], case,
                           '%s -> %s (%s): %s carries %s raw annotation but its upgraded annotation %s' % (
                               desc, sig, label, stale, 'no' if raw[stale[0]] is EMPTY else 'a', 'resolves to %r' % (up[stale[0]],) if up[stale[0]] is not EMPTY else 'is empty'))
                return
        for how in (False, True):
            try:
                got = annotations_of(P, evaluated=how)
            except Exception as e:
                stats.fail('C11/%s/evaluation-raised-%s' % (case['op'], type(e).__name__), case,
                           '%s -> %s: %s raised %s: %s' % (desc, P, 'evaluated()' if how else 'source_value()', type(e).__name__, e))
                return
            if list(got) != list(want) or any(not same(got[k], want[k]) for k in got):
                diff = [k for k in got if k in want and not same(got[k], want[k])]
                kind = 'twin'
                stats.fail('C11/%s/%s/%s' % (case['op'], kind, case['envmode'] if case['op'].startswith('merge') or case['op'] in ('embed', 'forwards', 'forwards_partial') else 'any'), case,
                           '%s\nwith the future flag -> %s, %s gives %r; the eager twins -> %s with %r (differs in %s)' % (
                               desc, P, 'evaluated()' if how else 'source_value()', show(got), E, show(want), diff))
                return
        # (a) ground truth for single-definer results
        if case['op'].startswith('merge'):
            # merge: the annotation all annotated contributors agree on (by what it denotes where it was written), else none;
            # for three inputs only the agreeing direction is asserted (the fold's treatment of conflicts is finding F8 of C10)
            got = annotations_of(P, evaluated=False)
            for name in got:
                if name == 'return':
                    continue
                vals = []
                for i, f in enumerate(case['funcs']):
                    for p in f['spec']:
                        if p[0] == name and p[3] is not None:
                            vals.append(denote(p[3], penvs[0] if case['envmode'] == 'shared' else penvs[i]))
                agree = bool(vals) and all(same(vals[0], v) for v in vals[1:])
                if not vals:
                    exp = EMPTY
                elif agree:
                    exp = vals[0]
                elif len(case['funcs']) == 2:
                    exp = EMPTY
                else:
                    continue
                if not same(got[name], exp):
                    stats.fail('C11/%s/ground-truth' % case['op'], case, '%s -> %s: annotation of %r resolves to %s; the annotated contributors denote %s' % (
                        desc, P, name, show({name: got[name]})[name], [show({name: v})[name] for v in vals]))
                    return
        if not case['op'].startswith('merge'):
            definer = {}
            for i, f in enumerate(case['funcs']):
                for p in f['spec']:
                    definer.setdefault(p[0], (i, p[3]))
            got = annotations_of(P, evaluated=False)
            for name, v in got.items():
                if name == 'return' and case['op'] == 'retrieve_class':
                    continue        # written on __init__, not reported for the class
                if case['op'] == 'runtime_annotation' and case['funcs'][0]['spec'] and name == case['funcs'][0]['spec'][0][0]:
                    if v is not OBJS[3]:
                        stats.fail('C11/runtime_annotation/ground-truth', case, '%s -> %s: %r was set to %r at run time, resolves to %r' % (desc, P, name, OBJS[3], v))
                        return
                    continue
                if name == 'return':
                    i, sp = 0, case['funcs'][0]['ret']
                elif name in definer:
                    i, sp = definer[name]
                else:
                    continue
                exp = EMPTY if sp is None else denote(sp, penvs[0] if case['envmode'] == 'shared' else penvs[i])
                if case['op'] == 'replace_annotation_removed' and name != 'return' and [p[0] for p in case['funcs'][0]['spec']].index(name) % 2 == 0:
                    exp = EMPTY         # taken away with replace(annotation=empty)
                # star parameters of embed/forwards results may stand for both the outer's and the inner's
                kindmap = dict((p[0], p[1]) for f in case['funcs'] for p in f['spec'])
                if kindmap.get(name) in (VP, VK) and case['op'] in ('embed', 'forwards', 'forwards_partial', 'discovery', 'discovery_chain', 'discovery_twice'):
                    continue
                if not same(v, exp):
                    stats.fail('C11/%s/ground-truth' % case['op'], case, '%s -> %s: annotation of %r resolves to %s, its spelling %r denotes %s in the defining globals' % (
                        desc, P, name, show({name: v})[name], sp, show({name: exp})[name]))
                    return
        # late binding: a name rebound after the signature was computed is what evaluation sees (PEP 563 postpones
        # evaluation; nothing may be captured at retrieval time).  All bindings are rotated uniformly, so agreements
        # and conflicts stay what they were when the functions were combined.
        if all(case['flags']):
            rot = {id(OBJS[0]): OBJS[1], id(OBJS[1]): OBJS[2], id(OBJS[2]): OBJS[0]}

            def turn(v):
                if isinstance(v, tuple):
                    return tuple(turn(x) for x in v)
                if isinstance(v, _types.GenericAlias):
                    return v.__origin__[turn(v.__args__)]
                return rot.get(id(v), v)
            for env in penvs:
                for sp in SPELL:
                    env[sp] = turn(env[sp])
            try:
                late = annotations_of(P, evaluated=True)
            except Exception as e:
                stats.fail('C11/%s/late-binding-raised-%s' % (case['op'], type(e).__name__), case, '%s -> %s: after rebinding the spellings evaluated() raised %s: %s' % (desc, P, type(e).__name__, e))
                return
            want_late = dict((k, turn(v)) for k, v in want.items())
            if any(not same(late[k], want_late[k]) for k in late):
                stats.fail('C11/%s/late-binding' % case['op'], case,
                           '%s -> %s: after every spelling was rebound in the functions\' globals, evaluated() gives %r, expected %r' % (desc, P, show(late), show(want_late)))
                return
            stats.cls('late-binding-checked')
        survived = any(v is not EMPTY for v in want.values())
        if survived and any(case['flags']) and case['envmode'] != 'shared':
            stats.nontriv((case['op'], desc))
            stats.sample('%s/%s' % (case['op'], case['envmode']), {'case': desc, 'result': str(P), 'annotations': show(want)})
        elif survived:
            stats.cls('survived-shared-or-eager')
    finally:
        for fn in files:
            linecache.cache.pop(fn, None)


def check_annotate(case, stats):
    """modifiers.annotate: values come back verbatim (identity), also under kwoargs and on a
    function compiled with the future flag whose own annotations stay resolvable."""
    import sigtools
    from sigtools import modifiers
    f = case['funcs'][0]
    files = []
    try:
        fns, envs, files = compile_funcs(dict(case, funcs=[f]), [case['flags'][0]])
        fn = fns[0]
        named = [p[0] for p in f['spec'] if p[1] in (PO, POK, KWO, VP, VK)]
        vals = {}
        for name, vi in zip(named, case['extra']['annvals']):
            if vi < 3:
                # plain objects, and strings -- also strings that spell a global of the function, or nothing at all
                vals[name] = [OBJS[vi], 'X', 'not a name'][vi % 3] if case['extra']['pick'] % 2 else OBJS[vi]
        ret = case['extra']['annret']
        retobj = None if ret == 'NONE' else OBJS[ret] if ret is not None else None      # 'NONE': the value None is the annotation
        args = () if ret is None else (retobj,)
        desc = 'annotate(%s%s) on [%s] %s' % (', '.join(repr(a) for a in args) + (', ' if args else ''), ', '.join('%s=%r' % kv for kv in vals.items()),
                                             'postponed' if case['flags'][0] else 'eager', fsrc(f, 'f0').strip())
        try:
            d = modifiers.annotate(*args, **vals)(fn)
            if case['extra']['pick'] % 3 == 0:
                pok = [p[0] for p in f['spec'] if p[1] == POK]
                if pok:
                    d = modifiers.kwoargs(pok[-1])(d)
            R = sigtools.signature(d)
        except ValueError:
            stats.cls('annotate/raises')
            return
        stats.cls('annotate/%s' % ('postponed' if case['flags'][0] else 'eager'))
        env = envs[0]
        for how in (False, True):
            try:
                got = annotations_of(R, evaluated=how)
            except Exception as e:
                stats.fail('C11/annotate/evaluation-raised-%s' % type(e).__name__, case,
                           '%s -> %s: %s raised %s: %s' % (desc, R, 'evaluated()' if how else 'source_value()', type(e).__name__, e))
                return
            for p in f['spec']:
                name = p[0]
                exp = vals[name] if name in vals else (EMPTY if p[3] is None else denote(p[3], env))
                if not same(got.get(name, EMPTY), exp):
                    stats.fail('C11/annotate/%s' % ('given-value' if name in vals else 'own-annotation'), case,
                               '%s -> %s: %s of %r is %r, expected %r' % (desc, R, 'evaluated()' if how else 'source_value()', name, got.get(name), exp))
                    return
            exp = retobj if ret is not None else (EMPTY if f['ret'] is None else denote(f['ret'], env))
            if not same(got['return'], exp):
                stats.fail('C11/annotate/%s' % ('given-return' if ret is not None else 'own-return'), case,
                           '%s -> %s: %s of the return annotation is %r, expected %r' % (desc, R, 'evaluated()' if how else 'source_value()', got['return'], exp))
                return
        if vals or ret is not None:
            stats.nontriv(('annotate', desc))
            stats.sample('annotate', {'case': desc, 'result': str(R)})
    finally:
        for fn_ in files:
            linecache.cache.pop(fn_, None)


def shard_hyp(arg):
    seed, n = arg
    st = Stats()
    hyp_search(st_case(), check_case, st, n, seed)
    return st


def run(ctx):
    total = Stats()
    n = ctx.pick(8000, 96000)
    total.merge(ctx.pmap(shard_hyp, [(s, n // 16) for s in ctx.shard_seeds(16)]))
    return total


def replay(case, stats):
    check_case(case, stats)
