"""C01 -- merge soundness (n-ary).

Oracle: for R = merge(s1..sn) and every call shape c that R accepts,
  (1) c all-positional or all-keyword  => every si accepts c     (any inputs)
  (2) inputs role-consistent and c non-colliding => every si accepts c
  (3) the same for n = 3, 4 (the n-ary result is held to the pairwise standard).
A ValueError from merge is a non-case here (typed in C15)."""
import itertools

from vlib import cpbind, realfn, universe
from vlib.framework import Stats, hyp_search
from vlib.shapeset import ShapeSpace
from vlib.universe import Par

LEVEL = 'exploration'
RULE = ('E2: ordered pairs (all, thorough) / triples (sampled) of the <=2-named signature universe over names '
        'a,b,c with star spellings *args|*p, **kwargs|**k, each merged and compared on 64 call shapes '
        '(0..3 positionals x subsets of {a,b,c,q}); E1: Hypothesis n-tuples (n=2..4, <=5 named parameters, inputs '
        'derived from a common spine by edits). Non-trivial = merge returned, the result accepts >=1 shape and the '
        'inputs are not all equal; distinct by the tuple of input parameter lists.')
ASSUMPTIONS = ['acceptance is decided on call shapes (number of positionals, set of keyword names)']

NAMES = ('a', 'b', 'c')
SPACE = None
UNIV = None


def _init():
    global SPACE, UNIV
    if SPACE is None:
        SPACE = ShapeSpace(NAMES + ('q',), 3)
        UNIV = universe.enum_specs(NAMES, 2, ('args', 'p'), ('kwargs', 'k'))


def views_of(sigs):
    return [universe.sig_view(s) for s in sigs]


def merge_specs(specs):
    from sigtools import signatures
    from vlib.framework import stable_hash
    h = stable_hash([universe.spec_text(s) for s in specs])
    mode = (h >> 8) % 3
    if mode and not any(p.ann for s in specs for p in s):
        # which calls the result accepts has nothing to do with annotations: a third of the tuples is merged with annotations
        # the inputs disagree on (mode 1), a third with only every second input annotated (mode 2)
        ann = lambda i: ('int' if i % 2 == 0 else 'str') if mode == 1 else ('str' if i % 2 else None)
        specs = [tuple(p._replace(ann=ann(i)) for p in s) for i, s in enumerate(specs)]
    sigs = [realfn.sig_of(s, 'f%d' % i) for i, s in enumerate(specs)]
    if h % 4 == 0:
        # the signature objects are shared between cases (cached): now and then they go through another operation first;
        # what merge then says about them must not depend on it
        for sg in sigs:
            for args in ((1,), (0, 'a'), (0, 'b')):
                try:
                    signatures.mask(sg, *args)
                except ValueError:
                    pass
    return signatures.merge(*sigs)


def clause_masks(space, rview, iviews):
    """(mask of shapes on which soundness is demanded, consistent?)"""
    cons = cpbind.role_consistent(iviews)
    demanded = space.allpos | space.allkw
    if cons:
        demanded |= space.noncolliding(rview, iviews)
    return demanded, cons


def check_views(space, specs, stats, enum=False):
    """Core oracle on one tuple of specs. Returns nothing; records into stats."""
    stats.case()
    n = len(specs)
    try:
        r = merge_specs(specs)
    except ValueError:
        stats.cls('n=%d/incompatible' % n)
        return
    rview = universe.sig_view(r)
    iviews = [universe.spec_view(s) for s in specs]
    racc = space.acc(rview)
    common = space.full
    for v in iviews:
        common &= space.acc(v)
    demanded, cons = clause_masks(space, rview, iviews)
    cls = 'n=%d/%s' % (n, 'consistent' if cons else 'inconsistent')
    stats.cls(cls)
    if racc and len(set(specs)) > 1:
        if enum:
            stats.nontriv_enum()
        else:
            stats.nontriv([universe.spec_text(s) for s in specs])
        stats.sample(cls, {'inputs': [universe.spec_text(s) for s in specs], 'merged': str(r),
                           'accepted_shapes': space.count(racc), 'demanded_shapes': space.count(demanded & racc)})
    bad = racc & ~common & demanded
    if bad:
        npos, kws = space.first(bad)
        clause = 'allpos' if not kws else 'allkw' if npos == 0 else 'noncolliding'
        rejecting = [i for i, v in enumerate(iviews) if not cpbind.accepts(v, npos, kws)]
        stats.fail('C01/unsound/n=%d/%s' % (n, clause),
                   {'op': 'merge', 'specs': [list(map(list, s)) for s in specs]},
                   'merge(%s) = %s accepts (npos=%d, kw=%s) which input(s) %s reject' % (
                       ', '.join('(%s)' % universe.spec_text(s) for s in specs), r, npos, list(kws), rejecting))


def shard_pairs(arg):
    idxs, = arg
    _init()
    st = Stats()
    for i in idxs:
        a = UNIV[i]
        for b in UNIV:
            check_views(SPACE, (a, b), st, enum=True)
    return st


def shard_triples(arg):
    """Sampled triples from the single-spelling <=2-named universe: (i, j, k) by stride."""
    start, step, count, usize = arg
    _init()
    st = Stats()
    small = [s for s in UNIV if all(p.name in ('a', 'b', 'c', 'args', 'kwargs') for p in s)]
    n = len(small)
    total = n ** 3
    x = start
    for _ in range(count):
        x = (x + step) % total
        i, rem = divmod(x, n * n)
        j, k = divmod(rem, n)
        check_views(SPACE, (small[i], small[j], small[k]), st, enum=False)
    return st


def shard_triples_small(arg):
    """All triples of the <=1-named universe over two names (exhaustive in thorough)."""
    idxs, = arg
    _init()
    st = Stats()
    U1 = universe.enum_specs(('a', 'b'), 1, ('args', 'p'), ('kwargs', 'k'))
    for i in idxs:
        for b in U1:
            for c in U1:
                check_views(SPACE, (U1[i], b, c), st, enum=True)
    return st


HNAMES = ('a', 'b', 'c', 'd', 'e')


def st_tuple():
    from hypothesis import strategies as st
    base = universe.st_spec(HNAMES, 5)

    @st.composite
    def build(draw):
        spine = draw(base)
        n = draw(st.sampled_from([2, 2, 3, 3, 3, 4]))
        out = []
        for _ in range(n):
            if draw(st.integers(0, 9)) == 0:
                out.append(draw(base))
            else:
                out.append(draw(universe.st_edit(st.just(spine), HNAMES))[1])
        return tuple(out)
    return build()


def check_hyp(specs, stats):
    names = []
    for s in specs:
        for p in s:
            if p.kind in (0, 1, 3) and p.name not in names:
                names.append(p.name)
    names = names[:6] + ['q', 'zz']
    maxpos = max(cpbind.poscap(universe.spec_view(s)) for s in specs) + 2
    space = _space_cache(tuple(names), maxpos)
    check_views(space, tuple(specs), stats)


_spaces = {}


def _space_cache(names, maxpos):
    k = (names, maxpos)
    sp = _spaces.get(k)
    if sp is None:
        if len(_spaces) > 64:
            _spaces.clear()
        sp = _spaces[k] = ShapeSpace(names, maxpos, 3)
    return sp


def shard_hyp(arg):
    seed, n = arg
    st = Stats()
    hyp_search(st_tuple(), check_hyp, st, n, seed)
    return st


def selfcheck(ctx):
    _init()
    sample = ctx.stride(UNIV, ctx.pick(0.05, 1.0))
    n, bad = cpbind.selfcheck(sample)
    if bad:
        from vlib.framework import HarnessError
        raise HarnessError('binding model disagrees with real defs: %r' % bad[:3])
    return n


def run(ctx):
    _init()
    total = Stats()
    total.extra['selfcheck_comparisons'] = selfcheck(ctx)
    n = len(UNIV)
    idx = list(range(n))
    if ctx.quick:
        idx = ctx.stride(idx, 0.12)
    chunks = [(idx[i::64],) for i in range(64)]
    total.merge(ctx.pmap(shard_pairs, [c for c in chunks if c[0]]))
    if not ctx.quick:
        total.exhaustive['ordered pairs of the <=2-named universe (%d signatures)' % n] = n * n
        U1n = len(universe.enum_specs(('a', 'b'), 1, ('args', 'p'), ('kwargs', 'k')))
        total.merge(ctx.pmap(shard_triples_small, [(list(range(U1n))[i::32],) for i in range(32)]))
        total.exhaustive['ordered triples of the <=1-named universe over a,b (%d signatures)' % U1n] = U1n ** 3
    ntrip = ctx.pick(150000, 2000000)
    per = ntrip // 32
    total.merge(ctx.pmap(shard_triples, [(ctx.seed * 7919 + s * 104729, 1000003 + 2 * s, per, 0) for s in range(32)]))
    nh = ctx.pick(4000, 32000)
    total.merge(ctx.pmap(shard_hyp, [(s, nh // 16) for s in ctx.shard_seeds(16)]))
    return total


def replay(case, stats):
    specs = tuple(tuple(Par(*p) for p in s) for s in case['specs'])
    check_hyp(specs, stats)
