"""C17 -- concurrent signature retrieval gives the sequential answer.

The harness owns the schedule (vlib/sched.py): logical threads run one at a time and are preempted only at
explicit points (line boundaries inside sigtools code), so every interleaving is plain data, replays
exactly and can be enumerated.  For each shared-object scenario and each pair (or triple) of thread
actions:
  * thorough: ALL one-preemption schedules (thread 0 preempted at every point p, the other thread(s) run
    to completion, thread 0 resumes), in both role orders; all two-preemption schedules whose first
    preemption lies in a shared-state window (recursion guard held / attribute set differs), a stride of
    the others; sampled three-thread schedules;
  * quick: one-preemption schedules at a stride plus every window point.
Oracle: each thread's result equals what the same call returns when run alone on a fresh copy of the
scenario; at quiescence every object of the scenario has exactly its initial attributes, and a fresh
retrieval still gives the sequential answer (nothing left in the recursion guard)."""
import inspect

from vlib import faults, realfn, scenarios, sched
from vlib.framework import Stats, HarnessError

LEVEL = 'exploration'
RULE = ('Schedules = {(thread, preemption point): next thread} over scenarios built from vlib/scenarios.py (functools.wraps chains, '
        'as_forged objects: forwards_to emulate=True, wrappers.decorator / wrapper_decorator objects and methods, modifiers-wrapped '
        'methods on the same and on different instances, Combination) x thread action pairs (sigtools.signature / inspect.signature / '
        'attribute access + signature, on the same or a related object). Non-trivial = the schedule actually interleaved (the other '
        'thread ran >=1 sigtools line while thread 0 was suspended mid-retrieval); distinct by (scenario, actions, schedule).')
ASSUMPTIONS = ['preemption at line granularity inside sigtools frames only; switches inside one line (between bytecodes) or while only '
               'inspect/stdlib code is on top of the stack are not explored',
               'a schedule that does not terminate within the timeout is reported as a harness error, never as a violation']

# (scenario template, [(target expression, action), ...])
CASES = [
    ('wraps1', [('w1', 'sigtools.signature'), ('w1', 'sigtools.signature')]),
    ('wraps1', [('w1', 'sigtools.signature'), ('w1', 'inspect.signature')]),
    ('wraps2', [('w2', 'sigtools.signature'), ('w1', 'inspect.signature')]),
    ('wraps2', [('w2', 'sigtools.signature'), ('w1', 'sigtools.signature')]),
    ('sigattr', [('w1', 'sigtools.signature'), ('w1', 'inspect.signature')]),
    ('forger_wraps', [('w1', 'sigtools.signature'), ('w1', 'inspect.signature')]),
    ('forger_emulate', [('w1', 'sigtools.signature'), ('w1', 'inspect.signature')]),
    ('forger_emulate', [('w1', 'inspect.signature'), ('w1', 'inspect.signature')]),
    ('decorator_fn', [('w1', 'sigtools.signature'), ('w1', 'inspect.signature')]),
    ('decorator_fn', [('w1', 'inspect.signature'), ('w1', 'sigtools.signature')]),
    ('wrapper_decorator', [('w1', 'inspect.signature'), ('w1', 'inspect.signature')]),
    ('decorator_method', [('obj.m', 'sigtools.signature'), ('obj.m', 'inspect.signature')]),
    ('decorator_method', [('obj.m', 'inspect.signature'), ('obj2.m', 'inspect.signature')]),
    ('decorator_method', [('K.m', 'sigtools.signature'), ('obj.m', 'sigtools.signature')]),
    ('forger_method', [('obj.me', 'inspect.signature'), ('obj.me', 'sigtools.signature')]),
    ('forger_method', [('obj.m', 'sigtools.signature'), ('obj2.m', 'sigtools.signature')]),
    # two instances whose forged signatures differ (the callee is an instance attribute), looked up at the same time
    ('forger_method_ivar', [('obj.me', 'inspect.signature'), ('obj2.me', 'inspect.signature')]),
    ('forger_method_ivar', [('obj.me', 'sigtools.signature'), ('obj2.me', 'inspect.signature')]),
    ('forger_method_ivar', [('obj.m', 'sigtools.signature'), ('obj2.m', 'sigtools.signature')]),
    ('modifiers_method', [('obj.m', 'sigtools.signature'), ('obj.m', 'inspect.signature')]),
    ('modifiers_method', [('obj.m', 'sigtools.signature'), ('obj2.m', 'sigtools.signature')]),
    ('modifiers_method', [('obj.m', 'call'), ('obj2.m', 'call')]),
    ('modifiers_method', [('obj.m', 'sigtools.signature'), ('obj.m', 'drop-held')]),
    ('modifiers_method', [('obj.m', 'call'), ('obj.m', 'drop-held')]),
    ('forger_implicit_classmethod', [('K.__class_getitem__', 'inspect.signature'), ('K.__class_getitem__', 'inspect.signature')]),
    ('forger_implicit_classmethod', [('K.__class_getitem__', 'sigtools.signature'), ('K.__class_getitem__', 'inspect.signature')]),
    ('wraps_factory', [('w1', 'sigtools.signature'), ('w2', 'sigtools.signature')]),
    ('wraps_factory', [('w1', 'sigtools.signature'), ('w2', 'inspect.signature')]),
    ('as_forged_class', [('K', 'inspect.signature'), ('obj', 'inspect.signature')]),
    ('modifiers_wraps', [('w1', 'sigtools.signature'), ('w1', 'inspect.signature')]),
    ('combination', [('w1', 'sigtools.signature'), ('w1', 'inspect.signature')]),
    ('partial_wraps', [('w1', 'sigtools.signature'), ('w0', 'inspect.signature')]),
    ('property_sig', [('w1', 'sigtools.signature'), ('w1', 'inspect.signature')]),
]
TRIPLES = [
    ('decorator_fn', [('w1', 'sigtools.signature'), ('w1', 'inspect.signature'), ('w1', 'inspect.signature')]),
    ('wraps2', [('w2', 'sigtools.signature'), ('w1', 'inspect.signature'), ('w2', 'inspect.signature')]),
    ('forger_emulate', [('w1', 'inspect.signature'), ('w1', 'sigtools.signature'), ('w1', 'inspect.signature')]),
    ('modifiers_method', [('obj.m', 'sigtools.signature'), ('obj.m', 'inspect.signature'), ('obj2.m', 'sigtools.signature')]),
]
INNER = 'x, y, *, z'
OUTER = 'a, '


def guard():
    """The recursion guard behind as_forged, if it is reachable as a plain container."""
    from sigtools import specifiers
    g = getattr(specifiers.as_forged, 'currently_computing', None)
    return g if isinstance(g, (set, dict, list)) else None


def build(name):
    g, _, src = scenarios.build(name, INNER, OUTER)
    if 'K' in g and isinstance(g['K'], type) and 'obj2' not in g:
        g['obj2'] = g['K']()
    return g, src


def thread_fn(g, texpr, action):
    import sigtools
    if action == 'drop-held':
        # this thread got hold of the bound object earlier (it sits in the descriptor's weak cache) and now
        # lets go of it, a garbage collection following at once
        import gc
        held = [scenarios.resolve(g, texpr)]

        def dropper():
            del held[:]
            gc.collect()
            return 'dropped'
        return dropper

    def fn():
        obj = scenarios.resolve(g, texpr)
        if action == 'sigtools.signature':
            return str(sigtools.signature(obj))
        if action == 'inspect.signature':
            return str(inspect.signature(obj))
        if action == 'call':
            try:
                return repr(obj(a=5))
            except TypeError:
                return 'TypeError'
        raise AssertionError(action)
    return fn


def baseline(name, threads):
    """Each action run alone (under the tracer, so the point count is known) on a fresh scenario."""
    out = []
    for texpr, action in threads:
        g, src = build(name)
        try:
            s = sched.Sched([thread_fn(g, texpr, action)], {})
            res = s.run()
            out.append((res[0], s.points[0], s.trace[0]))
        finally:
            realfn.unload(g)
    return out


def find_windows(name, threads):
    """Points of thread 0 (run alone) at which shared state is 'open': guard non-empty or attributes differ."""
    g, src = build(name)
    try:
        roots = scenarios.roots(g)
        before = faults.snapshot(roots)
        gd = guard()

        def probe(tid, p):
            if gd is None:
                return True
            return bool(gd) or faults.snapshot(roots) != before
        s = sched.Sched([thread_fn(g, *threads[0])], {}, probe=probe)
        s.run()
        return s.window_points[0]
    finally:
        realfn.unload(g)


def run_schedule(name, threads, plan, expected, stats, label):
    stats.case()
    gd = guard()
    if gd is not None:
        gd.clear()
    g, src = build(name)
    try:
        roots = scenarios.roots(g)
        before = faults.snapshot(roots)
        s = sched.Sched([thread_fn(g, t, a) for t, a in threads], plan)
        try:
            res = s.run()
        except sched.Deadlock as e:
            raise HarnessError('schedule %r of %s %r did not terminate: %s' % (plan, name, threads, e))
        after = faults.snapshot(roots)
        leftover = len(gd) if gd is not None else 0
        if gd is not None:
            gd.clear()
        # a fresh retrieval after quiescence must still give the sequential answer
        post = []
        for (t, a) in threads:
            try:
                post.append(('ok', thread_fn(g, t, a)()))
            except Exception as e:
                post.append(('exc', type(e).__name__))
    finally:
        realfn.unload(g)
    interleaved = bool(s.switches) and s.ran_between[s.switches[0][0]] > 0
    cls = '%s/%s' % (label, 'interleaved' if interleaved else 'no-interleaving')
    stats.cls(cls)
    planj = [[t, p, n] for (t, p), n in sorted(plan.items())]
    case = {'scenario': name, 'threads': [list(x) for x in threads], 'plan': planj, 'source': src}
    if interleaved:
        stats.nontriv((name, threads, planj))
        stats.sample('%s/%s' % (label, name), {'scenario': name, 'threads': [list(x) for x in threads], 'plan': planj,
                                                'switches': [list(x) for x in s.switches], 'results': [list(r) for r in res]})
    where = ', '.join('T%d preempted before line %d of %s() -> T%d' % (a, ln, fn, b) for a, p, fn, ln, b in s.switches)
    for i, (r, e) in enumerate(zip(res, expected)):
        if tuple(r) != tuple(e):
            stats.fail('C17/%s/result-differs/%s' % (name, threads[i][1]), case,
                       'scenario %s, threads %r, schedule [%s]: thread %d returned %r, alone it returns %r' % (name, threads, where, i, r, e))
            break
    # no interleaving may leave an object without an attribute it had (__wrapped__, __signature__, ...);
    # lazily initialised state that a sequential run sets too (rebinding) is not a loss
    lost = []
    for k in before:
        names_b = set(x[0] for x in before[k])
        names_a = set(x[0] for x in after.get(k, ())) if k in after else names_b
        if names_b - names_a:
            lost.append('%s lost %s' % (k, sorted(names_b - names_a)))
    if lost:
        stats.fail('C17/%s/attribute-lost' % name, case, 'scenario %s, threads %r, schedule [%s]: at quiescence %s' % (name, threads, where, '; '.join(lost)[:500]))
    if leftover:
        stats.fail('C17/%s/guard-not-empty' % name, case, 'scenario %s, threads %r, schedule [%s]: the as_forged guard still holds %d object(s)' % (name, threads, where, leftover))
    for i, (r, e) in enumerate(zip(post, expected)):
        if tuple(r) != tuple(e):
            stats.fail('C17/%s/post-quiescence-differs' % name, case,
                       'scenario %s, threads %r, schedule [%s]: afterwards %s(%s) gives %r instead of %r' % (name, threads, where, threads[i][1], threads[i][0], r, e))
            break


def evenly(seq, k, seed):
    """At most k elements of seq, evenly spaced, offset keyed by the seed."""
    seq = list(seq)
    if len(seq) <= k:
        return seq
    step = len(seq) / float(k)
    off = (seed * 0.6180339887) % 1.0 * step
    return [seq[min(len(seq) - 1, int(off + i * step))] for i in range(k)]


def explore(arg):
    name, threads, mode, seed, chunk, nchunks = arg
    st = Stats()
    threads = [tuple(t) for t in threads]
    base = baseline(name, threads)
    expected = [b[0] for b in base]
    n0 = base[0][1]
    n1 = base[1][1]
    st.extra['preemption_points_thread0'] += n0
    win = set(find_windows(name, threads))
    st.extra['window_points_thread0'] += len(win)
    if len(threads) == 2:
        allp = list(range(1, n0 + 1))
        if mode == 'thorough':
            ps = allp
        else:
            # the first points are the attribute access itself (descriptor caches), always taken
            # ... and so is the first visit of every distinct source line (a race needs a particular place in the code far
            # more often than a particular moment)
            seen, firsts = set(), []
            for i, loc in enumerate(base[0][2]):
                if loc not in seen:
                    seen.add(loc)
                    firsts.append(i + 1)
            st.extra['distinct_lines_thread0'] += len(firsts)
            ps = sorted(set(evenly(allp, 90, seed)) | set(evenly(sorted(win), 60, seed)) | set(allp[:120]) | set(firsts))
        for p in ps:
            if p % nchunks == chunk:
                run_schedule(name, threads, {(0, p): 1}, expected, st, 'one-preemption')
        if mode == 'thorough' and chunk == 0:
            st.exhaustive['one-preemption schedules of %s %r' % (name, threads)] = n0
        # two preemptions: first inside a shared-state window when there is one
        wps = sorted(win) or allp
        np_, nq = (45, 40) if mode == 'thorough' else (8, 6)
        for p in evenly(wps, np_, seed):
            if p % nchunks != chunk:
                continue
            for q in evenly(list(range(1, n1 + 1)), nq, seed + p):
                run_schedule(name, threads, {(0, p): 1, (1, q): 0}, expected, st, 'two-preemptions')
    else:
        n2 = base[2][1]
        x = seed * 7919 + 13
        count = 600 if mode == 'thorough' else 40
        for it in range(count):
            x = (x * 1103515245 + 12345) & 0x7fffffff
            if it % nchunks != chunk:
                continue
            p = 1 + x % max(1, n0)
            x = (x * 1103515245 + 12345) & 0x7fffffff
            q = 1 + x % max(1, n1)
            x = (x * 1103515245 + 12345) & 0x7fffffff
            r = 1 + x % max(1, n2)
            plan = {(0, p): 1, (1, q): 2, (2, r): 0} if x & 1 else {(0, p): 2, (2, r): 1, (1, q): 0}
            run_schedule(name, threads, plan, expected, st, 'three-threads')
    return st


def run(ctx):
    import sigtools.wrappers, sigtools.specifiers, sigtools.modifiers, sigtools.support  # noqa: no import lock inside schedules
    total = Stats()
    mode = 'quick' if ctx.quick else 'thorough'
    work = []
    nchunks = 1 if ctx.quick else 6
    for chunk in range(nchunks):
        for name, threads in CASES:
            work.append((name, threads, mode, ctx.seed, chunk, nchunks))
            if threads[0] != threads[1]:
                work.append((name, [threads[1], threads[0]], mode, ctx.seed, chunk, nchunks))
        for name, threads in TRIPLES:
            work.append((name, threads, mode, ctx.seed, chunk, nchunks))
    total.merge(ctx.pmap(explore, work))
    return total


def replay(case, stats):
    import sigtools.wrappers, sigtools.specifiers, sigtools.modifiers  # noqa
    threads = [tuple(t) for t in case['threads']]
    base = baseline(case['scenario'], threads)
    plan = {(t, p): n for t, p, n in case['plan']}
    run_schedule(case['scenario'], threads, plan, [b[0] for b in base], stats, 'replay')
