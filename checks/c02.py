"""C02 -- embed = calling outer, which forwards *args/**kwargs to inner.

Reference semantics (written from the property, independent of _embed):
  ref(c)  :=  outer accepts c, and with S = surplus positionals beyond outer's positional parameters and
              K' = keywords not naming a keyword-passable outer parameter,
              inner accepts (S if use_varargs else 0, K' if use_varkwargs else {}).
 (a) soundness   every non-colliding c the result accepts satisfies ref(c)
 (b) exactness   every non-colliding c with ref(c) is accepted, unless outer has a defaulted positional
                 parameter and the result contains a positional parameter contributed by inner (exempt)
 (c) raise       IncompatibleSignatures => outer and inner share a parameter name or no shape satisfies ref
 (d) fold        embed(a, b, c) and embed(embed(a, b), c): both raise or equal parameter lists
 (e) bare        embed((*args, **kwargs), inner) has exactly inner's parameter list
"""
from vlib import cpbind, realfn, universe
from vlib.framework import Stats, hyp_search
from vlib.shapeset import ShapeSpace
from vlib.universe import Par, PO, POK, VP, KWO, VK
from checks.c03 import canon_params

LEVEL = 'exploration'
RULE = ('E2: 220 outers (<=2 named over a,b) x 1 305 inners (<=2 named over a,x,y, star spellings *args|*p, **kwargs|**k) '
        'x 4 use_* combinations, compared on 192 shapes (0..5 positionals x subsets of {a,b,x,y,zz}); fold law on sampled '
        'triples; bare-outer law on every inner; E1 Hypothesis pairs/triples with <=5 named parameters. Non-trivial = embed '
        'returned, inner contributes >=1 parameter to the result and >=1 shape is accepted; distinct by (outer, inner, flags).')
ASSUMPTIONS = ['results compared up to keyword-only parameter order in the fold law']

ONAMES = ('a', 'b')
INAMES = ('a', 'x', 'y')
SPACE = None
OUT = INN = None
_pairs = {}


def _init():
    global SPACE, OUT, INN
    if SPACE is None:
        SPACE = ShapeSpace(('a', 'b', 'x', 'y', 'zz'), 5)
        OUT = universe.enum_specs(ONAMES, 2, ('args',), ('kwargs',))
        INN = universe.enum_specs(INAMES, 2, ('args', 'p'), ('kwargs', 'k'))


def do_embed(sigs, **kw):
    from sigtools import signatures
    try:
        return signatures.embed(*sigs, **kw), None
    except signatures.IncompatibleSignatures:
        return None, 'IncompatibleSignatures'
    except ValueError:
        return None, 'ValueError'


def ref_pairs(space, oview, uva, uvk):
    """For each shape outer accepts: (shape index, index of the shape inner receives)."""
    key = (space.names, space.maxpos, len(space.shapes), oview, uva, uvk)
    r = _pairs.get(key)
    if r is None:
        if len(_pairs) > 20000:
            _pairs.clear()
        idx = getattr(space, '_index', None)
        if idx is None:
            idx = space._index = {(n, frozenset(k)): i for i, (n, k) in enumerate(space.shapes)}
        ob = cpbind.binder(oview)
        cap = cpbind.poscap(oview)
        okw = cpbind.kwpassable(oview)
        r = []
        for i, (n, K) in enumerate(space.shapes):
            if ob.accepts(n, K):
                S = max(0, n - cap) if uva else 0
                K2 = frozenset(k for k in K if k not in okw) if uvk else frozenset()
                r.append((i, idx[(S, K2)]))
        _pairs[key] = r
    return r


def ref_mask(space, oview, iview, uva, uvk):
    iacc = space.acc(iview)
    m = 0
    for i, j in ref_pairs(space, oview, uva, uvk):
        if (iacc >> j) & 1:
            m |= 1 << i
    return m


def check_pair(space, so, si, uva, uvk, stats, enum):
    stats.case()
    ov, iv = universe.spec_view(so), universe.spec_view(si)
    r, exc = do_embed([realfn.sig_of(so, 'outer'), realfn.sig_of(si, 'inner')], use_varargs=uva, use_varkwargs=uvk)
    ref = ref_mask(space, ov, iv, uva, uvk)
    case = {'op': 'embed', 'specs': [list(map(list, so)), list(map(list, si))], 'use_varargs': uva, 'use_varkwargs': uvk}
    desc = 'embed((%s), (%s), use_varargs=%s, use_varkwargs=%s)' % (universe.spec_text(so), universe.spec_text(si), uva, uvk)
    shared = set(universe.spec_names(so)) & set(universe.spec_names(si))
    if r is None:
        stats.cls('raised/%s' % ('shared-name' if shared else 'infeasible' if not ref else 'OTHER'))
        if exc != 'IncompatibleSignatures':
            stats.fail('C02/raise-type', case, '%s raised plain ValueError' % desc)
        if not shared and ref:
            npos, kws = space.first(ref)
            stats.fail('C02/raise-but-feasible', case, '%s raised although (npos=%d, kw=%s) works and no name is shared' % (desc, npos, list(kws)))
        return
    rv = universe.sig_view(r)
    racc = space.acc(rv)
    nc = space.noncolliding(rv, [ov, iv])
    onames = set(universe.spec_names(so))
    inner_contrib = [n for n, k, d in rv if n not in onames or
                     (k in (VP, VK) and n in universe.spec_names(si) and ((k == VP and uva) or (k == VK and uvk)))]
    o_defpos = any(k in (PO, POK) and d for n, k, d in ov)
    inner_pos = any(k in (PO, POK) and n not in onames for n, k, d in rv)
    exempt = o_defpos and inner_pos
    cls = 'returned/%s' % ('exempt' if exempt else 'exact')
    stats.cls(cls)
    if inner_contrib and racc:
        stats.nontriv_enum() if enum else stats.nontriv((universe.spec_text(so), universe.spec_text(si), uva, uvk))
        stats.sample(cls, {'call': desc, 'result': str(r)})
    bad = racc & ~ref & nc
    if bad:
        npos, kws = space.first(bad)
        stats.fail('C02/unsound', dict(case, shape=[npos, list(kws)]),
                   '%s -> %s accepts (npos=%d, kw=%s) but outer-then-inner rejects it' % (desc, r, npos, list(kws)))
    miss = ref & ~racc & nc
    if miss:
        if exempt:
            stats.cls('inexact-exempt')
        else:
            npos, kws = space.first(miss)
            stats.fail('C02/inexact', dict(case, shape=[npos, list(kws)]),
                       '%s -> %s rejects (npos=%d, kw=%s) which outer-then-inner accepts' % (desc, r, npos, list(kws)))


def check_bare(si, an, kn, stats):
    stats.case()
    bare = realfn.sig_of((Par(an, VP), Par(kn, VK)), 'bare')
    inner = realfn.sig_of(si, 'inner')
    r, exc = do_embed([bare, inner])
    stats.cls('bare')
    if r is None or universe.spec_from_sig(r) != universe.spec_from_sig(inner):
        stats.fail('C02/bare', {'op': 'bare', 'specs': [list(map(list, si))], 'bare': [an, kn]},
                   'embed((*%s, **%s), (%s)) -> %s' % (an, kn, universe.spec_text(si), r if r is not None else exc))


def check_fold(specs, uva, uvk, stats, enum):
    stats.case()
    sigs = [realfn.sig_of(s, 'f%d' % i) for i, s in enumerate(specs)]
    nary, e1 = do_embed(sigs, use_varargs=uva, use_varkwargs=uvk)
    ab, e2 = do_embed(sigs[:2], use_varargs=uva, use_varkwargs=uvk)
    nested, e3 = (None, e2) if ab is None else do_embed([ab, sigs[2]], use_varargs=uva, use_varkwargs=uvk)
    case = {'op': 'fold', 'specs': [list(map(list, s)) for s in specs], 'use_varargs': uva, 'use_varkwargs': uvk}
    desc = 'embed(%s, use_varargs=%s, use_varkwargs=%s)' % (', '.join('(%s)' % universe.spec_text(s) for s in specs), uva, uvk)
    if nary is None and nested is None:
        stats.cls('fold/both-raise')
        return
    stats.cls('fold/returned')
    stats.nontriv_enum() if enum else stats.nontriv((tuple(universe.spec_text(s) for s in specs), uva, uvk))
    stats.sample('fold/returned', {'call': desc, 'nary': str(nary), 'nested': str(nested)})
    if (nary is None) != (nested is None):
        stats.fail('C02/fold/raise-mismatch', case, '%s: n-ary -> %s, nested -> %s' % (desc, nary or e1, nested or e3))
    elif canon_params(nary) != canon_params(nested):
        stats.fail('C02/fold/params', case, '%s: n-ary -> %s, nested -> %s' % (desc, nary, nested))


FLAGS = ((True, True), (True, False), (False, True), (False, False))


def shard_pairs(arg):
    idxs, = arg
    _init()
    st = Stats()
    for i in idxs:
        for si in INN:
            for uva, uvk in FLAGS:
                check_pair(SPACE, OUT[i], si, uva, uvk, st, True)
    return st


def shard_bare(arg):
    specs, = arg
    st = Stats()
    for s in specs:
        for an, kn in (('args', 'kwargs'), ('p', 'k'), ('args', 'k')):
            check_bare(s, an, kn, st)
            # ... also when the inner signature has named parameters spelled like the bare outer's stars (which are not in
            # the result: the names are free)
            ren = tuple(p._replace(name={'x': an, 'y': kn}.get(p.name, p.name)) for p in s)
            if ren != s and len(set(p.name for p in ren)) == len(ren):
                check_bare(ren, an, kn, st)
    return st


def shard_fold(arg):
    start, step, count = arg
    _init()
    st = Stats()
    # outer and middle must have stars for anything interesting: restrict to starred ones
    outs = [s for s in OUT if any(p.kind in (VP, VK) for p in s)]
    mids = [s for s in universe.enum_specs(('c', 'x'), 1, ('args',), ('kwargs',))]
    inns = [s for s in universe.enum_specs(('y', 'z', 'a'), 2, ('args',), ('kwargs',))]
    total = len(outs) * len(mids) * len(inns) * 4
    x = start
    for _ in range(count):
        x = (x + step) % total
        x1, f = divmod(x, 4)
        x2, k = divmod(x1, len(inns))
        i, j = divmod(x2, len(mids))
        check_fold((outs[i], mids[j], inns[k]), FLAGS[f][0], FLAGS[f][1], st, False)
    return st


ON = ('a', 'b', 'c')
IN = ('x', 'y', 'z', 'a', 'b')


def st_case():
    from hypothesis import strategies as st

    @st.composite
    def build(draw):
        outer = draw(universe.st_spec(ON, 3, ('args', 'p'), ('kwargs', 'k'), p_star=0.8))
        inner = draw(universe.st_spec(IN, 4, ('args', 'p'), ('kwargs', 'k'), p_star=0.5))
        uva, uvk = draw(st.sampled_from(FLAGS + ((True, True),) * 2))
        third = draw(universe.st_spec(('u', 'v', 'x'), 2, ('args',), ('kwargs',))) if draw(st.integers(0, 3)) == 0 else None
        return {'outer': outer, 'inner': inner, 'uva': uva, 'uvk': uvk, 'third': third}
    return build()


_spaces = {}


def check_hyp(case, stats):
    so, si = case['outer'], case['inner']
    if case.get('third') is not None:
        check_fold((so, si, case['third']), case['uva'], case['uvk'], stats, False)
        return
    names = []
    for s in (so, si):
        for p in s:
            if p.kind in (0, 1, 3) and p.name not in names:
                names.append(p.name)
    key = (tuple(names[:7]) + ('zz',), cpbind.poscap(universe.spec_view(so)) + cpbind.poscap(universe.spec_view(si)) + 1)
    sp = _spaces.get(key)
    if sp is None:
        if len(_spaces) > 32:
            _spaces.clear()
        sp = _spaces[key] = ShapeSpace(key[0], key[1])   # all keyword subsets: ref needs the image shapes too
    check_pair(sp, so, si, case['uva'], case['uvk'], stats, False)


def shard_hyp(arg):
    seed, n = arg
    st = Stats()
    hyp_search(st_case(), check_hyp, st, n, seed)
    return st


def run(ctx):
    _init()
    total = Stats()
    idx = ctx.stride(list(range(len(OUT))), ctx.pick(0.1, 1.0))
    total.merge(ctx.pmap(shard_pairs, [(idx[i::64],) for i in range(64) if idx[i::64]]))
    inn = ctx.stride(INN, ctx.pick(0.2, 1.0))
    total.merge(ctx.pmap(shard_bare, [(inn[i::16],) for i in range(16) if inn[i::16]]))
    if not ctx.quick:
        total.exhaustive['outers(<=2 named over a,b) x inners(<=2 named over a,x,y) x 4 flag pairs'] = len(OUT) * len(INN) * 4
        total.exhaustive['bare outer x every inner'] = len(INN) * 3
    nf = ctx.pick(60000, 1500000)
    total.merge(ctx.pmap(shard_fold, [(ctx.seed * 7919 + s * 104729, 1000003 + 2 * s, nf // 32) for s in range(32)]))
    nh = ctx.pick(3200, 32000)
    total.merge(ctx.pmap(shard_hyp, [(s, nh // 16) for s in ctx.shard_seeds(16)]))
    return total


def replay(case, stats):
    specs = [tuple(Par(*p) for p in s) for s in case['specs']]
    if case['op'] == 'bare':
        check_bare(specs[0], case['bare'][0], case['bare'][1], stats)
    elif case['op'] == 'fold':
        check_fold(tuple(specs), case['use_varargs'], case['use_varkwargs'], stats, False)
    else:
        check_hyp({'outer': specs[0], 'inner': specs[1], 'uva': case['use_varargs'], 'uvk': case['use_varkwargs']}, stats)
