"""C12 -- kwoargs / posoargs / autokwoargs: advertised signature <=> call behaviour.

An independent reference (`expected`) computes from the function's def and the selection either the
advertised parameter list or "inadmissible" (=> ValueError at decoration time, exactly).  Then
  * sigtools.signature(g) and inspect.signature(g) equal the reference (non-keyword-only parameters in
    order; keyword-only ones as a set, converted ones keeping their relative order after the native ones);
  * for every call shape with distinguishable values, g(*a, **k) raises TypeError <=> the reference
    binding rejects the call, and otherwise every value and default lands on the parameter the
    reference binding assigns it to (the function returns its locals);
  * the same through a bound method and through class access."""
import inspect
import itertools

from vlib import cpbind, realfn, universe
from vlib.framework import Stats, hyp_search
from vlib.universe import Par, PO, POK, VP, KWO, VK

LEVEL = 'exploration'
RULE = ('E2: every function of the <=3-named universe over a,b,c (thorough; quick: stride sample) x every pair of name subsets '
        '(kwoargs names, posoargs names; size<=3 each, drawn from parameter names incl. star names plus a foreign name) x '
        'start=/end= for every name x autokwoargs with every exceptions= subset of defaulted names and a foreign name, applied '
        'as function, bound method and class attribute, called on 192 shapes (0..5 positionals x subsets of {a,b,c,q,zz}) with '
        'distinguishable values and defaults; 4-named functions sampled; E1 Hypothesis cases with <=5 named parameters. '
        'Non-trivial = >=1 parameter changed kind and the shape has >=1 positional and >=1 keyword argument (counted per '
        '(function, selection) that was exercised with such a shape); distinct by (function, form, selection, placement).')
ASSUMPTIONS = ['calls passing a positional-only name by keyword alongside **kwargs are excluded (version-dependent)',
               'exceptions= names are generated only as defaulted positional-or-keyword names (admissible) or unknown names '
               '(inadmissible); other choices are not constrained by the property']

KW = ('a', 'b', 'c', 'q', 'zz')


class Inadmissible(Exception):
    pass


def expected(spec, kwo, poso):
    """Advertised parameter list (tuple of Par) for kwoargs(*kwo) + posoargs(*poso), or Inadmissible."""
    kwo, poso = set(kwo), set(poso)
    names = {p.name for p in spec}
    if (kwo | poso) - names:
        raise Inadmissible('unknown name')
    if kwo & poso:
        raise Inadmissible('both kinds')
    head, conv, tail_kwo, va, vk = [], [], [], None, None
    seen_regular = False
    for p in spec:
        if p.kind == POK:
            if p.name in poso:
                if seen_regular:
                    raise Inadmissible('positional-only after a regular parameter')
                head.append(p._replace(kind=PO))
            elif p.name in kwo:
                conv.append(p._replace(kind=KWO))
            else:
                seen_regular = True
                head.append(p)
        else:
            if p.name in kwo and p.kind != KWO:
                raise Inadmissible('wrong native kind')
            if p.name in poso and p.kind != PO:
                raise Inadmissible('wrong native kind')
            if p.kind == PO:
                head.append(p)
            elif p.kind == VP:
                va = p
            elif p.kind == KWO:
                tail_kwo.append(p)
            else:
                vk = p
    return tuple(head + ([va] if va else []) + tail_kwo + conv + ([vk] if vk else []))


def start_names(spec, start):
    """kwoargs(start=...): start and every positional-or-keyword parameter after it."""
    poks = [p.name for p in spec if p.kind == POK]
    if start not in poks:
        raise Inadmissible('start not found')
    return poks[poks.index(start):]


def end_names(spec, end):
    poks = [p.name for p in spec if p.kind == POK]
    if end not in poks:
        raise Inadmissible('end not found')
    return poks[:poks.index(end) + 1]


def auto_names(spec, exceptions):
    d = [p.name for p in spec if p.kind == POK and p.default is not None]
    if set(exceptions) - set(d):
        raise Inadmissible('exceptions not present')
    return [x for x in d if x not in exceptions]


def with_defaults(spec):
    """Distinguishable default values: parameter p defaults to the string 'd_p'."""
    return tuple(p._replace(default=repr('d_' + p.name)) if p.default is not None else p for p in spec)


def adv_view(sig):
    ps = universe.spec_from_sig(sig)
    return tuple(p for p in ps if p.kind != KWO), frozenset(p for p in ps if p.kind == KWO), tuple(p.name for p in ps if p.kind == KWO)


def exp_view(exp):
    return tuple(p for p in exp if p.kind != KWO), frozenset(p for p in exp if p.kind == KWO)


def twin(f):
    import types
    g = types.FunctionType(f.__code__, f.__globals__, f.__name__, f.__defaults__, f.__closure__)
    g.__kwdefaults__ = f.__kwdefaults__
    return g


def decoy(f):
    """A function declaring f's positional-or-keyword parameters in reverse order, followed by one of its own."""
    sig = inspect.signature(f)
    pok = [p for p in sig.parameters.values() if p.kind == p.POSITIONAL_OR_KEYWORD]
    rest = [p for p in sig.parameters.values() if p.kind != p.POSITIONAL_OR_KEYWORD]
    parts = []
    for p in rest:
        if p.kind == p.POSITIONAL_ONLY:
            parts.append(p.name)
    if parts:
        parts.append('/')
    parts += ['%s=None' % p.name for p in reversed(pok)] + ['zq9=None']
    star = [p for p in rest if p.kind == p.VAR_POSITIONAL]
    kwo = [p for p in rest if p.kind == p.KEYWORD_ONLY]
    if star:
        parts.append('*' + star[0].name)
    elif kwo:
        parts.append('*')
    parts += ['%s=None' % p.name for p in kwo]
    parts += ['**' + p.name for p in rest if p.kind == p.VAR_KEYWORD]
    ns = {}
    exec('def decoy_fn(%s):\n    return None\n' % ', '.join(parts), ns)
    return ns['decoy_fn']


def decorate(f, form, sel):
    """Every decorator object is first used on a twin of the function: decorator objects are reusable, what one
    decoration did must not leak into the next."""
    from sigtools import modifiers

    def reuse(deco, g):
        # first on a function with the same parameter names in another order and one more (what the decorator object
        # learnt about that function must not show on the next one), then on a twin
        if g is f:
            try:
                deco(decoy(f))
            except ValueError:
                pass
        try:
            deco(twin(f) if g is f else g)
        except ValueError:
            pass
        return deco(g)
    if form == 'names':
        kwo, poso, order = sel
        g = f
        steps = [('k', kwo), ('p', poso)] if order == 0 else [('p', poso), ('k', kwo)]
        for which, names in steps:
            if names:
                deco = (modifiers.kwoargs if which == 'k' else modifiers.posoargs)(*names)
                g = reuse(deco, g) if g is f else deco(g)
                # the intermediate result is looked up as a method (on a class and on an instance) before the next decorator is
                # applied to it: nothing of that may carry over to what is stacked on top
                try:
                    tmp = type('Tmp', (object,), {'m': g})
                    tmp.m
                    tmp().m
                except Exception:
                    pass
        return g
    if form == 'start':
        return reuse(modifiers.kwoargs(*sel[1], start=sel[0]), f)
    if form == 'end':
        return reuse(modifiers.posoargs(*sel[1], end=sel[0]), f)
    if form == 'auto':
        if sel is None:
            return modifiers.autokwoargs(f)
        if (len(sel) + f.__code__.co_argcount + f.__code__.co_kwonlyargcount) % 2:
            # the function and the option in one call
            return modifiers.autokwoargs(f, exceptions=sel)
        return reuse(modifiers.autokwoargs(exceptions=sel), f)
    raise AssertionError(form)


def expect(spec, form, sel):
    if form == 'names':
        # decorators are applied one after the other: each step must be admissible on its own
        if sel[2] == 0 and sel[0]:
            expected(spec, sel[0], ())
        if sel[2] == 1 and sel[1]:
            expected(spec, (), sel[1])
        return expected(spec, sel[0], sel[1])
    if form == 'start':
        return expected(spec, set(start_names(spec, sel[0])) | set(sel[1]), ())
    if form == 'end':
        return expected(spec, (), set(end_names(spec, sel[0])) | set(sel[1]))
    if form == 'auto':
        return expected(spec, auto_names(spec, sel or ()), ())


def shapes_for(kwnames, maxpos):
    out = []
    for n in range(maxpos + 1):
        for r in range(len(kwnames) + 1):
            for K in itertools.combinations(kwnames, r):
                out.append((n, K))
    return out


_SHAPES = {}


def check_case(spec, form, sel, placement, stats, enum=True, kwnames=KW, maxpos=None, first='self'):
    """spec: def parameter list (for methods WITHOUT self; self is added here)."""
    import sigtools
    stats.case()
    spec = with_defaults(spec)
    if placement == 'function':
        full = spec
    else:
        # def m(self, ...): self is positional-only exactly when a positional-only parameter follows it
        # (the instance parameter is usually spelled self, but any name will do -- and self may name another parameter)
        if any(p.name == 'self' for p in spec):
            first = 'this'
        full = (Par(first, PO if any(p.kind == PO for p in spec) else POK),) + spec
        if form == 'names' and sel[1] and sel[2] == 1:
            sel = [sel[0], [first] + [x for x in sel[1] if x != first], sel[2]]
        # end= naming the instance parameter itself (every second such selection that names the method's first own parameter)
        if form == 'end' and spec and sel[0] == spec[0].name and (len(spec) + len(sel[1])) % 2 == 0:
            sel = [first, sel[1]]
    case = {'spec': list(map(list, spec)), 'form': form, 'sel': sel, 'placement': placement, 'first': first}
    desc = '%s%r on def f(%s) as %s' % (form, sel, universe.spec_text(full), placement)
    try:
        exp = expect(full, form, sel)
    except Inadmissible as e:
        exp = None
        why = str(e)
    f = realfn.plain_function(full, 'f')
    try:
        g = decorate(f, form, sel)
    except ValueError:
        stats.cls('%s/decoration-ValueError' % form)
        if exp is not None:
            stats.fail('C12/%s/raised-but-admissible' % form, case, '%s raised ValueError but the selection is admissible' % desc)
        return
    except Exception as e:
        stats.fail('C12/%s/decoration-%s' % (form, type(e).__name__), case, '%s raised %s: %s' % (desc, type(e).__name__, e))
        return
    if exp is None:
        stats.cls('%s/INADMISSIBLE-ACCEPTED' % form)
        stats.fail('C12/%s/inadmissible-accepted' % form, case, '%s (%s) did not raise ValueError; advertises %s' % (desc, why, sigtools.signature(g)))
        return
    changed = sum(1 for p in exp for q in full if p.name == q.name and p.kind != q.kind)
    if placement == 'function':
        target = g
    else:
        # value objects: every instance equals (and hashes like) every other one; the method bound on an
        # earlier, equal instance is still held when it is bound on `obj` (descriptor caches must key on identity)
        K = type('K', (object,), {'m': g, '__eq__': lambda self, other: type(other) is type(self), '__hash__': lambda self: 1})
        earlier = K()
        obj = K()
        try:
            # (for the class placement too: binding on an instance first must not change what the function itself accepts)
            held = earlier.m
            target = obj.m if placement == 'bound' else K.m
        except Exception as e:
            first_selected = form == 'names' and first in (sel[0] + sel[1])
            stats.cls('%s/%s/ACCESS-RAISED' % (form, placement))
            stats.fail('C12/%s/%s/%saccess-raises-%s' % (form, placement, 'first-parameter-selected/' if first_selected else '', type(e).__name__),
                       case, '%s: attribute access raised %s: %s' % (desc, type(e).__name__, e))
            return
    exp_t = exp[1:] if placement == 'bound' else exp
    spec = full
    adv = [('sigtools.signature', sigtools.signature(target)), ('inspect.signature', inspect.signature(target))]
    ok_sig = True
    for label, s in adv:
        got = adv_view(s)
        want = exp_view(exp_t)
        conv = [p.name for p in exp if p.kind == KWO and any(q.name == p.name and q.kind == POK for q in spec)]
        got_conv = [n for n in got[2] if n in conv]
        if got[0] != want[0] or got[1] != want[1] or got_conv != conv:
            ok_sig = False
            stats.fail('C12/%s/advertised/%s' % (form, placement), dict(case, via=label),
                       '%s: %s reports %s, expected (%s)' % (desc, label, s, universe.spec_text(exp_t)))
            break
    cls = '%s/%s/%s' % (form, placement, 'changed' if changed else 'unchanged')
    stats.cls(cls)
    if not ok_sig:
        return
    # calls
    b = cpbind.binder(universe.spec_view(exp_t))
    defaults = {p.name: 'd_' + p.name for p in exp_t if p.default is not None}
    has_vk = any(p.kind == VK for p in exp_t)
    ponames = {p.name for p in exp_t if p.kind == PO}
    mp = (cpbind.poscap(universe.spec_view(exp_t)) + 2) if maxpos is None else maxpos
    if placement == 'class' and first not in kwnames:
        kwnames = tuple(kwnames) + (first,)     # called through the class, the instance may be passed by keyword where advertised
    key = (kwnames, mp)
    shp = _SHAPES.get(key)
    if shp is None:
        shp = _SHAPES[key] = shapes_for(kwnames, mp)
    mixed = False
    for n, K in shp:
        if has_vk and ponames & set(K):
            continue
        if placement == 'class' and n == 0 and first not in K:
            continue
        args = tuple(100 + i for i in range(n))
        if placement == 'class' and n:
            args = (obj,) + args[1:]
        kwargs = {k: 'k_' + k for k in K}
        if K and (n + len(K)) % 3 == 0:
            kwargs[K[0]] = None         # None is a value like any other
        if placement == 'class' and first in K:
            kwargs[first] = obj
        stats.extra['calls'] += 1
        try:
            want = b.bind(args, kwargs, defaults)
        except TypeError:
            want = None
        try:
            got = target(*args, **kwargs)
        except TypeError:
            got = None
        if got is not None:
            got = dict(got)
            got.pop('__fn__', None)
            if placement == 'bound':
                if got.pop(first, None) is not obj:
                    got = {first: 'WRONG INSTANCE'}
        if n and K and want is not None:
            mixed = True
        if got != want:
            stats.fail('C12/%s/call/%s/%s' % (form, placement, 'accepts-invalid' if want is None else 'rejects-valid' if got is None else 'misdelivers'),
                       dict(case, args=list(map(repr, args)), kwargs=kwargs),
                       '%s advertising (%s): call(*%r, **%r) -> %r, reference binding -> %r' % (desc, universe.spec_text(exp_t), args, kwargs, got, want))
            break
    if changed and mixed:
        if enum:
            stats.nontriv_enum()
        else:
            stats.nontriv((universe.spec_text(spec), form, sel, placement))
        stats.sample(cls, {'decoration': desc, 'advertised': '(%s)' % universe.spec_text(exp_t)})


class _Anything(object):
    """A default value that claims to equal everything (unittest.mock.ANY does)."""
    def __eq__(self, other):
        return True

    def __ne__(self, other):
        return False
    __hash__ = object.__hash__

    def __repr__(self):
        return '<ANYTHING>'


def check_permissive_defaults(stats):
    """A default is a default, whatever its == says: the decorated function is called without it and delivers it."""
    import sigtools
    from sigtools import modifiers
    ANY = _Anything()
    ns = {'ANY': ANY}
    exec('def f(a, b=ANY, c=ANY):\n    return {"a": a, "b": b, "c": c}\n', ns)
    for label, make in (("kwoargs('b')", lambda f: modifiers.kwoargs('b')(f)), ("kwoargs(start='b')", lambda f: modifiers.kwoargs(start='b')(f)),
                        ('autokwoargs', lambda f: modifiers.autokwoargs(f)), ("posoargs('a')", lambda f: modifiers.posoargs('a')(f))):
        stats.case()
        stats.cls('permissive-default/%s' % label)
        g = make(twin(ns['f']))
        case = {'form': 'permissive-default', 'decorator': label}
        sig = sigtools.signature(g)
        if any(p.default is p.empty for p in sig.parameters.values() if p.name != 'a'):
            stats.fail('C12/permissive-default/advertised', case, '%s on def f(a, b=ANY, c=ANY) advertises %s: b and c have defaults' % (label, sig))
            continue
        if label == 'autokwoargs' and [p.name for p in sig.parameters.values() if p.kind == p.KEYWORD_ONLY] != ['b', 'c']:
            stats.fail('C12/permissive-default/advertised', case, 'autokwoargs on def f(a, b=ANY, c=ANY) advertises %s: b and c have defaults and become keyword-only' % sig)
            continue
        try:
            got = g(1)
        except TypeError as e:
            stats.fail('C12/permissive-default/call', case, '%s on def f(a, b=ANY, c=ANY) advertises %s but f(1) raises TypeError: %s' % (label, sig, e))
            continue
        if got['b'] is not ANY or got['c'] is not ANY or got['a'] != 1:
            stats.fail('C12/permissive-default/call', case, '%s on def f(a, b=ANY, c=ANY): f(1) delivers %r' % (label, got))
            continue
        stats.nontriv(('permissive-default', label))


def check_bound_objects(stats):
    """The decorators applied to what is already bound (a method taken from an instance, a classmethod taken from the
    class): the selection refers to the parameters that are left, unknown names are refused as for a function."""
    import sigtools
    from sigtools import modifiers
    ns = {}
    exec('class K(object):\n'
         '    def m(self, a, b=2, c=3):\n        return {"self": self, "a": a, "b": b, "c": c}\n'
         '    @classmethod\n    def cm(cls, a, b=2, c=3):\n        return {"self": cls, "a": a, "b": b, "c": c}\n', ns)
    K = ns['K']
    obj = K()
    for label, bound, owner in (('instance method', obj.m, obj), ('classmethod', K.cm, K)):
        for dlabel, deco in (("kwoargs('zz9')", lambda: modifiers.kwoargs('zz9')), ("posoargs('zz9')", lambda: modifiers.posoargs('zz9')),
                             ("kwoargs('b', 'zz9')", lambda: modifiers.kwoargs('b', 'zz9')), ("kwoargs('self')", lambda: modifiers.kwoargs('self')),
                             ("kwoargs(start='zz9')", lambda: modifiers.kwoargs(start='zz9')), ("posoargs(end='zz9')", lambda: modifiers.posoargs(end='zz9')),
                             ("autokwoargs(exceptions=['zz9'])", lambda: modifiers.autokwoargs(exceptions=['zz9']))):
            stats.case()
            stats.cls('bound-object/inadmissible')
            case = {'form': 'bound-object', 'object': label, 'decorator': dlabel}
            try:
                g = deco()(bound)
            except ValueError:
                continue
            except Exception as e:
                stats.fail('C12/bound-object/decoration-%s' % type(e).__name__, case, '%s on a bound %s (a, b=2, c=3) raised %s: %s' % (dlabel, label, type(e).__name__, e))
                continue
            stats.fail('C12/bound-object/inadmissible-accepted', case,
                       '%s on a bound %s with parameters (a, b=2, c=3) names no parameter of it but did not raise ValueError; advertises %s' % (dlabel, label, sigtools.signature(g)))
        for dlabel, deco, want, calls in (
                ("kwoargs('b')", lambda: modifiers.kwoargs('b'), '(a, c=3, *, b=2)', [((1,), {}), ((1, 9), {}), ((1,), {'b': 5}), ((1, 9, 8), {})]),
                ("posoargs('a')", lambda: modifiers.posoargs('a'), '(a, /, b=2, c=3)', [((1,), {}), ((), {'a': 1}), ((1, 7), {'c': 4})]),
                ('autokwoargs', lambda: modifiers.autokwoargs, '(a, *, b=2, c=3)', [((1,), {}), ((1, 9), {}), ((1,), {'c': 5})]),
                ("autokwoargs(exceptions=['b'])", lambda: modifiers.autokwoargs(exceptions=['b']), '(a, b=2, *, c=3)', [((1, 9), {}), ((1, 9, 8), {}), ((1,), {'c': 5})])):
            stats.case()
            stats.cls('bound-object/admissible')
            case = {'form': 'bound-object', 'object': label, 'decorator': dlabel}
            try:
                g = deco()(bound)
                sig = sigtools.signature(g)
            except Exception as e:
                stats.fail('C12/bound-object/raised-%s' % type(e).__name__, case, '%s on a bound %s (a, b=2, c=3) raised %s: %s' % (dlabel, label, type(e).__name__, e))
                continue
            if str(sig) != want:
                stats.fail('C12/bound-object/advertised', case, '%s on a bound %s (a, b=2, c=3) advertises %s, expected %s' % (dlabel, label, sig, want))
                continue
            ref = universe.sig_view(sig)
            for a, k in calls:
                okref = cpbind.accepts(ref, len(a), tuple(k))
                try:
                    got = g(*a, **k)
                except TypeError:
                    got = None
                if (got is not None) != okref:
                    stats.fail('C12/bound-object/call', case, '%s on a bound %s advertises %s but the call (*%r, **%r) %s' % (
                        dlabel, label, sig, a, k, 'is rejected' if got is None else 'is accepted'))
                    break
                if got is not None:
                    b = cpbind.binder(ref).bind(a, k, {'b': 2, 'c': 3})
                    if got['self'] is not owner or any(got[n] != b[n] for n in ('a', 'b', 'c')):
                        stats.fail('C12/bound-object/delivery', case, '%s on a bound %s: the call (*%r, **%r) delivered %r, expected %r on %r' % (dlabel, label, a, k, got, b, owner))
                        break
            else:
                stats.nontriv(('bound-object', label, dlabel))


def selections(spec):
    cand = [p.name for p in spec] + ['q']
    subs = [c for r in range(0, 4) for c in itertools.combinations(cand, r)]
    out = []
    i = 0
    for kwo in subs:
        for poso in subs:
            if not kwo and not poso:
                continue
            if len(kwo) + len(poso) > 4:
                continue
            i += 1
            out.append(('names', [list(kwo), list(poso), i % 2]))
    for x in cand:
        out.append(('start', [x, []]))
        out.append(('end', [x, []]))
        for y in cand:
            if y != x:
                out.append(('start', [x, [y]]))
                out.append(('end', [x, [y]]))
    d = [p.name for p in spec if p.kind == POK and p.default is not None]
    out.append(('auto', None))
    for r in range(0, len(d) + 1):
        for ex in itertools.combinations(d, r):
            out.append(('auto', list(ex)))
    out.append(('auto', ['q']))
    return out


def work_spec(spec, stats, placements, first='self'):
    for form, sel in selections(spec):
        for pl in placements:
            check_case(spec, form, sel, pl, stats, first=first)


def shard(arg):
    specs, placements = arg
    st = Stats()
    for i, spec in enumerate(specs):
        work_spec(spec, st, placements, first='this' if i % 3 == 2 else 'self')
    return st


HN = ('a', 'b', 'self', 'd', 'e')


def st_case():
    from hypothesis import strategies as st

    @st.composite
    def build(draw):
        spec = draw(universe.st_spec(HN, 5, ('args',), ('kwargs',)))
        cand = [p.name for p in spec] + ['q']
        form = draw(st.sampled_from(['names', 'names', 'names', 'start', 'end', 'auto']))
        poks = [p.name for p in spec if p.kind == POK]
        if form == 'names':
            # biased toward admissible selections: kwo from poks, poso = a prefix of the remaining poks
            if draw(st.integers(0, 4)) > 0 and poks:
                kwo = [x for x in poks if draw(st.booleans())]
                rest = [x for x in poks if x not in kwo]
                poso = rest[:draw(st.integers(0, len(rest)))]
            else:
                kwo = draw(st.lists(st.sampled_from(cand), max_size=3, unique=True))
                poso = draw(st.lists(st.sampled_from(cand), max_size=3, unique=True))
            sel = [kwo, poso, draw(st.integers(0, 1))]
        elif form in ('start', 'end'):
            sel = [draw(st.sampled_from(poks or cand)), draw(st.lists(st.sampled_from(poks or cand), max_size=1))]
        else:
            d = [p.name for p in spec if p.kind == POK and p.default is not None]
            sel = None if draw(st.booleans()) else [x for x in d if draw(st.booleans())]
        pl = draw(st.sampled_from(['function', 'function', 'bound', 'class']))
        return (spec, form, sel, pl, draw(st.sampled_from(['self', 'self', 'this'])))
    return build()


def check_hyp(case, stats):
    spec, form, sel, pl, first = case
    names = tuple(p.name for p in spec if p.kind in (PO, POK, KWO))[:5] + ('q',)
    check_case(spec, form, sel, pl, stats, enum=False, kwnames=names, first=first)


def shard_hyp(arg):
    seed, n = arg
    st = Stats()
    hyp_search(st_case(), check_hyp, st, n, seed)
    return st


def shard_permissive(arg):
    st = Stats()
    check_permissive_defaults(st)
    check_bound_objects(st)
    return st


def run(ctx):
    total = Stats()
    total.merge(ctx.pmap(shard_permissive, [0]))
    U3 = universe.enum_specs(('a', 'b', 'c'), 3, ('args',), ('kwargs',))
    specs = ctx.stride(U3, ctx.pick(0.04, 1.0))
    total.merge(ctx.pmap(shard, [(specs[i::128], ('function', 'bound', 'class')) for i in range(128) if specs[i::128]]))
    if not ctx.quick:
        total.exhaustive['functions of the <=3-named universe x all selections x 3 placements'] = len(U3)
    U4 = universe.enum_specs(('a', 'b', 'c', 'd'), 4, ('args',), ('kwargs',), min_named=4)
    s4 = ctx.stride(U4, ctx.pick(0.002, 0.03))
    total.merge(ctx.pmap(shard, [(s4[i::128], ('function',)) for i in range(128) if s4[i::128]]))
    nh = ctx.pick(2400, 32000)
    total.merge(ctx.pmap(shard_hyp, [(s, nh // 16) for s in ctx.shard_seeds(16)]))
    return total


def replay(case, stats):
    if case.get('form') == 'permissive-default':
        check_permissive_defaults(stats)
        return
    if case.get('form') == 'bound-object':
        check_bound_objects(stats)
        return
    spec = tuple(Par(*p) for p in case['spec'])
    spec = tuple(p._replace(default='1') if p.default is not None else p for p in spec)
    names = tuple(p.name for p in spec if p.kind in (PO, POK, KWO))[:5] + ('q', 'zz')
    check_case(spec, case['form'], case['sel'], case['placement'], stats, enum=False, kwnames=tuple(dict.fromkeys(names)), first=case.get('first', 'self'))
