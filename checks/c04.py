"""C04 -- declared forwarding (forwards, forwards_to_*) is safe to call.

Part A (algebraic identity): signatures.forwards(outer, inner, n, *names, flags) equals
embed(outer, mask(inner', n, *names, hide_args, hide_kwargs), use_varargs, use_varkwargs)
in parameters and provenance (inner' = inner with every non-star default replaced by None
when partial=True), or both raise ValueError.

Part B (execution): real wrappers whose body calls inner(<n positionals>, *args, <names>=...,
**kwargs) and that are declared accordingly with forwards_to_function, forwards_to_method
(method, dotted attribute, instance attribute, staticmethod), forwards_to_super (zero-arg
super, also through a mixin MRO) or apply_forwards_to_super, with emulate default/True,
retrieved bound, unbound and from a subclass instance with sigtools.signature and (emulate)
inspect.signature: every non-colliding shape the reported signature accepts is executed and
must not raise TypeError (hide_*: for some hidden value); without defaulted outer positional,
hide_* or partial, every non-colliding shape it rejects must raise TypeError.
"""
import itertools

from vlib import cpbind, realfn, universe
from vlib.framework import Stats, hyp_search
from vlib.universe import Par, PO, POK, VP, KWO, VK

LEVEL = 'exploration'
RULE = ('Part A non-trivial: forwards returned and inner contributes >=1 parameter or a flag/partial is set; distinct by (outer, inner, n, names, flags). '
        'Part B non-trivial: the declared signature differs from the plain one, inner contributes >=1 parameter and >=1 accepted shape was executed '
        'down to inner; distinct by (kind, emulate, target form, outer, inner, n, names, flags).')
ASSUMPTIONS = ['unbound access to a forwards_to_method / forwards_to_super method reports the plain signature (the forger needs the instance): '
               'counted, not executed', 'hidden values searched over 0..cap+1 positionals and all subsets of inner\'s keyword-passable names',
               'generated bodies can raise TypeError only through argument binding']

ONAMES = ('a', 'b', 'c')
INAMES = ('x', 'y', 'z', 'a')
KINDS = ('function', 'function_in_class', 'method', 'method_dotted', 'method_ivar', 'method_static',
         'super', 'super_mixin', 'apply_super')


# ------------------------------------------------------------------------------ part A

def params(sig):
    return [(p.name, int(p.kind), None if p.default is p.empty else p.default,
             None if p.annotation is p.empty else p.annotation) for p in sig.parameters.values()]


def src_view(sig):
    names = dict((k, [id(f) for f in v]) for k, v in sig.sources.items() if k != '+depths')
    depths = dict((id(f), d) for f, d in sig.sources['+depths'].items())
    return names, depths


def check_identity(so, si, n, names, flags, stats, enum=False):
    from sigtools import signatures
    stats.case()
    outer = realfn.sig_of(so, 'fo')
    inner = realfn.sig_of(si, 'fi')
    fl = dict(flags)
    partial = fl.pop('partial', False)
    case = {'part': 'A', 'outer': [list(p) for p in so], 'inner': [list(p) for p in si], 'n': n, 'names': list(names), 'flags': dict(flags)}
    desc = 'forwards((%s), (%s), %d%s, %s)' % (universe.spec_text(so), universe.spec_text(si), n, ''.join(', %r' % x for x in names),
                                            ', '.join('%s=%r' % kv for kv in sorted(flags.items())))
    try:
        got = signatures.forwards(outer, inner, n, *names, partial=partial, **fl)
    except ValueError as e:
        got = e
    except Exception as e:
        stats.fail('C04/A/forwards-raised-%s' % type(e).__name__, case, '%s raised %s: %s' % (desc, type(e).__name__, e))
        return
    try:
        inner2 = inner
        if partial:
            inner2 = inner.replace(parameters=[p if p.kind in (p.VAR_POSITIONAL, p.VAR_KEYWORD) else p.replace(default=None)
                                               for p in inner.parameters.values()])
        want = signatures.embed(outer, signatures.mask(inner2, n, *names, hide_args=fl.get('hide_args', False),
                                                       hide_kwargs=fl.get('hide_kwargs', False)),
                                use_varargs=fl.get('use_varargs', True), use_varkwargs=fl.get('use_varkwargs', True))
    except ValueError as e:
        want = e
    if isinstance(got, Exception) or isinstance(want, Exception):
        if isinstance(got, Exception) != isinstance(want, Exception):
            stats.fail('C04/A/raise-mismatch', case, '%s -> %s but embed(outer, mask(inner, ...)) -> %s' % (
                desc, 'ValueError(%s)' % got if isinstance(got, Exception) else got, 'ValueError(%s)' % want if isinstance(want, Exception) else want))
        else:
            stats.cls('A/both-raise')
        return
    stats.cls('A/returned')
    if params(got) != params(want):
        stats.fail('C04/A/parameters', case, '%s -> %s but embed(outer, mask(inner, ...)) -> %s' % (desc, got, want))
        return
    if src_view(got) != src_view(want):
        stats.fail('C04/A/sources', case, '%s -> %s: sources %r differ from those of embed(outer, mask(inner, ...)) %r' % (desc, got, got.sources, want.sources))
        return
    inner_names = set(p.name for p in si)
    if any(p in inner_names for p in got.parameters) or partial or any(k.startswith('hide') and v for k, v in flags.items()):
        if enum:
            stats.nontriv_enum()
        else:
            stats.nontriv((universe.spec_text(so), universe.spec_text(si), n, tuple(names), tuple(sorted(flags.items()))))
        stats.sample('A/' + ('partial' if partial else 'plain'), {'call': desc, 'result': str(got)})


FLAGSETS = [dict(zip(('use_varargs', 'use_varkwargs', 'hide_args', 'hide_kwargs', 'partial'), bits))
            for bits in itertools.product((True, False), (True, False), (False, True), (False, True), (False, True))]


def shard_identity(arg):
    pairs, = arg
    st = Stats()
    for so, si in pairs:
        cap = sum(1 for p in si if p.kind in (PO, POK))
        kwp = [p.name for p in si if p.kind in (POK, KWO)] + ['q']
        for n in range(cap + 2):
            for r in range(3):
                for names in itertools.permutations(kwp, r):
                    for fl in FLAGSETS:
                        if fl['use_varargs'] and fl['hide_args'] or fl['use_varkwargs'] and fl['hide_kwargs']:
                            continue
                        check_identity(so, si, n, names, fl, st, enum=True)
    return st


# ------------------------------------------------------------------------------ part B

def st_decl():
    from hypothesis import strategies as st

    @st.composite
    def build(draw):
        kind = draw(st.sampled_from(KINDS))
        named = draw(universe.st_spec(ONAMES, max_named=3, p_star=0.0))
        ua = draw(st.integers(0, 9)) < 7
        uk = draw(st.integers(0, 9)) < 7
        ha = (not ua) and draw(st.integers(0, 3)) == 0
        hk = (not uk) and draw(st.integers(0, 3)) == 0
        aname = draw(st.sampled_from(['args', 'p']))
        kname = draw(st.sampled_from(['kwargs', 'k']))
        keep_a = ua or draw(st.booleans())
        keep_k = uk or draw(st.booleans())
        if not (keep_a or keep_k):
            keep_a = keep_k = True
        outer = [p for p in named if p.kind in (PO, POK)]
        if keep_a:
            outer.append(Par(aname, VP))
        outer += [p for p in named if p.kind == KWO]
        if keep_k:
            outer.append(Par(kname, VK))
        inner = draw(universe.st_spec(INAMES, max_named=4, p_star=0.3))
        cap = sum(1 for p in inner if p.kind in (PO, POK))
        n = draw(st.integers(0, cap)) if draw(st.booleans()) else 0
        if draw(st.integers(0, 19)) == 0:
            n = cap + 1
        pos = [p.name for p in inner if p.kind in (PO, POK)][:n]
        pool = [p.name for p in inner if p.kind in (POK, KWO) and p.name not in pos]
        if any(p.kind == VK for p in inner):
            pool.append('q')
        names = list(draw(st.permutations(pool)))[:draw(st.integers(0, min(2, len(pool))))] if pool else []
        partial = draw(st.integers(0, 5)) == 0
        emulate = draw(st.sampled_from([None, None, True]))
        return {'part': 'B', 'kind': kind, 'outer': [list(p) for p in outer], 'inner': [list(p) for p in inner], 'n': n, 'names': names,
                'flags': {'use_varargs': ua, 'use_varkwargs': uk, 'hide_args': ha, 'hide_kwargs': hk, 'partial': partial},
                'emulate': emulate, 'explicit_flags': draw(st.booleans()), 'falsy': draw(st.integers(0, 3)) == 0,
                'reuse': draw(st.integers(0, 3)) == 0}
    return build()


def render(d):
    so = tuple(Par(*p) for p in d['outer'])
    si = tuple(Par(*p) for p in d['inner'])
    fl = d['flags']
    kind = d['kind']
    va = next((p.name for p in so if p.kind == VP), None)
    vk = next((p.name for p in so if p.kind == VK), None)
    has_po_o = any(p.kind == PO for p in so)
    has_po_i = any(p.kind == PO for p in si)
    rec = "{%s}" % ', '.join(["'__fn__': 'inner'"] + ['%r: %s' % (p.name, p.name) for p in si])
    # declaration arguments
    dargs = [str(d['n'])] if (d['n'] or d['names']) else []
    dargs += [repr(x) for x in d['names']]
    dkw = []
    for k in ('use_varargs', 'use_varkwargs'):
        if not fl[k] or d['explicit_flags']:
            dkw.append('%s=%r' % (k, fl[k]))
    for k in ('hide_args', 'hide_kwargs', 'partial'):
        if fl[k] or d['explicit_flags']:
            dkw.append('%s=%r' % (k, fl[k]))
    if d['emulate'] is not None:
        dkw.append('emulate=%r' % d['emulate'])
    # written call
    parts = [str(1000 + i) for i in range(d['n'])]
    if fl['use_varargs']:
        parts.append('*' + va)
    elif fl['hide_args']:
        parts.append('*HA')
    parts += ['%s=%r' % (x, 'kv_' + x) for x in d['names']]
    if fl['use_varkwargs']:
        parts.append('**' + vk)
    elif fl['hide_kwargs']:
        parts.append('**HK')

    def call(expr):
        if fl['partial']:
            return 'RES.append(functools.partial(%s))' % ', '.join([expr] + parts)
        return 'return %s(%s)' % (expr, ', '.join(parts))

    def meth(spec, has_po):
        return universe.spec_text((Par('self', PO if has_po else POK),) + tuple(spec))
    pre = ('import functools\nfrom sigtools import specifiers\nLOG = []\nRES = []\nHA = ()\nHK = {}\n')
    inner_fn = 'def inner(%s):\n    LOG.append(%s)\n    return "inner"\n' % (universe.spec_text(si), rec)
    inner_m = 'def %%s(%s):\n    LOG.append(%s)\n    return "inner"\n' % (meth(si, has_po_i), rec)
    ind = lambda t: ''.join('    ' + l for l in t.splitlines(True))
    if kind == 'function':
        deco_expr = 'specifiers.forwards_to_function(%s)' % ', '.join(['inner'] + dargs + dkw)
        src = pre + inner_fn + '@%s\ndef w(%s):\n    %s\n' % (deco_expr, universe.spec_text(so), call('inner'))
        src += 'TARGETS = [("function", w, False)]\n'
    elif kind == 'function_in_class':
        deco_expr = 'specifiers.forwards_to_function(%s)' % ', '.join(['inner'] + dargs + dkw)
        src = pre + inner_fn + 'class K(object):\n' + ind('@%s\ndef w(%s):\n    %s\n' % (deco_expr, meth(so, has_po_o), call('inner')))
        src += 'class Sub(K):\n    pass\nINST = K()\nTARGETS = [("bound", INST.w, False), ("subclass", Sub().w, False), ("unbound-free", K.w, True)]\n'
    elif kind in ('method', 'method_dotted', 'method_ivar', 'method_static'):
        attr = {'method': 'inner', 'method_dotted': 'helper.inner', 'method_ivar': 'fn', 'method_static': 'sinner'}[kind]
        deco_expr = 'specifiers.forwards_to_%s(%s)' % ('ivar' if kind == 'method_ivar' else 'method', ', '.join([repr(attr)] + dargs + dkw))
        deco = '@' + deco_expr + '\n'
        body = ''
        if kind == 'method':
            src = pre + 'class K(object):\n' + ind(inner_m % 'inner')
        elif kind == 'method_dotted':
            src = pre + 'class H(object):\n' + ind(inner_m % 'inner') + 'class K(object):\n    def __init__(self):\n        self.helper = H()\n'
        elif kind == 'method_ivar':
            src = pre + inner_fn + 'class K(object):\n    def __init__(self):\n        self.fn = inner\n'
        else:
            src = pre + inner_fn + 'class K(object):\n    sinner = staticmethod(inner)\n'
        src += ind(deco + 'def w(%s):\n    %s\n' % (meth(so, has_po_o), call('self.' + attr)))
        src += 'class Sub(K):\n    pass\nINST = K()\nTARGETS = [("bound", INST.w, False), ("subclass", Sub().w, False), ("unbound", K.w, True)]\n'
    elif kind == 'super':
        src = pre + 'class Base(object):\n' + ind(inner_m % 'w')
        deco_expr = 'specifiers.forwards_to_super(%s)' % ', '.join(dargs + dkw)
        src += 'class K(Base):\n' + ind('@%s\ndef w(%s):\n    %s\n' % (deco_expr, meth(so, has_po_o), call('super().w')))
        src += 'class Sub(K):\n    pass\nINST = K()\nTARGETS = [("bound", INST.w, False), ("subclass", Sub().w, False), ("unbound", K.w, True)]\n'
    elif kind == 'super_mixin':
        src = pre + 'class Base(object):\n' + ind(inner_m % 'w')
        deco_expr = 'specifiers.forwards_to_super(%s)' % ', '.join(dargs + dkw)
        src += 'class Mixin(object):\n' + ind('@%s\ndef w(%s):\n    %s\n' % (deco_expr, meth(so, has_po_o), call('super().w')))
        src += 'class K(Mixin, Base):\n    pass\nINST = K()\nTARGETS = [("bound", INST.w, False), ("unbound", K.w, True)]\n'
    elif kind == 'apply_super':
        akw = ['num_args=%d' % d['n']] if (d['n'] or d['explicit_flags']) else []
        if d['names'] or d['explicit_flags']:
            akw.append('named_args=%r' % (tuple(d['names']),))
        src = pre + 'class Base(object):\n' + ind(inner_m % 'w')
        deco_expr = 'specifiers.apply_forwards_to_super(%s)' % ', '.join(["'w'"] + akw + dkw)
        src += '@%s\nclass K(Base):\n' % deco_expr
        src += ind('def w(%s):\n    %s\n' % (meth(so, has_po_o), call('super(K, self).w')))
        src += 'class Sub(K):\n    pass\nINST = K()\nTARGETS = [("bound", INST.w, False), ("subclass", Sub().w, False), ("unbound", K.w, True)]\n'
    else:
        raise ValueError(kind)
    if d.get('reuse'):
        src = reuse_decorator(src, deco_expr, kind)
    if d.get('falsy') and 'class K(' in src:
        # instances that are false in a boolean context (empty containers) are still instances
        head, sep, tail = src.partition('class K(')
        line, nl, rest = tail.partition('\n')
        src = head + sep + line + nl + '    def __len__(self):\n        return 0\n' + rest
    return src


DECOY_HEAD = ('class DecoyBase(object):\n    def w(self, dz=None):\n        return "decoy"\n'
              '    inner = sinner = fn = staticmethod(lambda dz=None: "decoy")\n    helper = property(lambda self: self)\n')


def reuse_decorator(src, deco_expr, kind):
    # one decorator object, first applied to (and retrieved through) an unrelated declaration, then to the real one: nothing of
    # the first use may carry over
    lines = src.splitlines(True)
    at = next(i for i, l in enumerate(lines) if l.strip() == '@' + deco_expr)
    lines[at] = lines[at].replace('@' + deco_expr, '@DECO')
    top = at
    while lines[top][:1] in (' ', '\t'):
        top -= 1
    if kind == 'apply_super':
        decoy = ('@DECO\nclass Decoy(DecoyBase):\n    def w(self, dq, *args, **kwargs):\n        return super(Decoy, self).w(*args, **kwargs)\n')
    elif kind in ('function', 'function_in_class'):
        decoy = ('class Decoy(DecoyBase):\n    @DECO\n    def w(self, dq, *args, **kwargs):\n        return inner(*args, **kwargs)\n')
    else:
        decoy = ('class Decoy(DecoyBase):\n    @DECO\n    def w(self, dq, *args, **kwargs):\n        return super().w(*args, **kwargs)\n')
    decoy += ('try:\n    import sigtools as _st\n    DECOY_SIG = str(_st.signature(Decoy().w))\nexcept Exception as e:\n    DECOY_SIG = repr(e)\n')
    lines[top:top] = [DECOY_HEAD, 'DECO = %s\n' % deco_expr, decoy]
    return ''.join(lines)


def execute(g, target, needs_self, npos, kws, ha, hk):
    g['HA'] = tuple(ha)
    g['HK'] = dict(hk)
    del g['LOG'][:]
    del g['RES'][:]
    args = [100 + i for i in range(npos)]
    if needs_self:
        args = [g['INST']] + args
    try:
        target(*args, **{k: 'k_' + k for k in kws})
    except TypeError as e:
        return 'TypeError', str(e)
    except Exception as e:
        return type(e).__name__, str(e)
    import functools
    import inspect
    for r in g['RES']:
        if isinstance(r, functools.partial):
            try:
                inspect.signature(r)
            except (ValueError, TypeError) as e:
                return 'TypeError', 'partial object with unbindable arguments: %s' % e
    return 'ok', len(g['LOG'])


def check_decl(d, stats):
    import inspect
    import sigtools
    from sigtools import signatures, specifiers
    specifiers.as_forged.currently_computing.clear()
    stats.case()
    so = tuple(Par(*p) for p in d['outer'])
    si = tuple(Par(*p) for p in d['inner'])
    fl = d['flags']
    src = render(d)
    case = dict(d, source=src)
    try:
        g = realfn.load(src)
    except ValueError as e:
        # decoration itself may validate eagerly (emulate=True objects compute lazily; plain ones too) -- a declaration
        # that cannot be honoured surfaces as ValueError
        stats.cls('B/declaration-raises-at-definition')
        return
    try:
        iview = universe.spec_view(si)
        icap = cpbind.poscap(iview)
        ikw = sorted(cpbind.kwpassable(iview))[:5]
        ha_c = [tuple(500 + i for i in range(k)) for k in range(icap + 2)] if fl['hide_args'] else [()]
        hk_c = [dict((x, 'h_' + x) for x in ks) for r in range(len(ikw) + 1) for ks in itertools.combinations(ikw, r)] if fl['hide_kwargs'] else [{}]
        alln = set(p.name for p in so) | set(p.name for p in si) | {'self'}
        for form, target, needs_self in g['TARGETS']:
            getters = [('sigtools.signature', sigtools.signature)]
            if d['emulate']:
                getters.append(('inspect.signature', inspect.signature))
            try:
                plain = signatures.signature(target)
            except ValueError:
                # emulate=True objects compute the declared signature on any retrieval
                stats.cls('B/declaration-raises/%s' % d['kind'])
                continue
            except Exception as e:
                stats.fail('C04/B/retrieval-raised-%s' % type(e).__name__, dict(case, form=form, via='signatures.signature'),
                           'signatures.signature(%s target) raised %s: %s for\n%s' % (form, type(e).__name__, e, src))
                continue
            sigs = {}
            for gname, getter in getters:
                stats.case()
                try:
                    R = getter(target)
                except ValueError as e:
                    stats.cls('B/declaration-raises/%s' % d['kind'])
                    continue
                except Exception as e:
                    stats.fail('C04/B/retrieval-raised-%s' % type(e).__name__, dict(case, form=form, via=gname),
                               '%s(%s target) raised %s: %s for\n%s' % (gname, form, type(e).__name__, e, src))
                    continue
                sigs[gname] = R
                rview = universe.sig_view(R)
                desc = '%s(%s target) = %s' % (gname, form, R)
                if form == 'unbound' and [x[:2] for x in rview] == [x[:2] for x in universe.sig_view(plain)]:
                    stats.cls('B/unbound-plain (the forger needs the instance; not executed)')
                    continue
                stats.cls('B/%s/%s/%s' % (d['kind'], form, 'emulate' if d['emulate'] else 'attribute'))
                if d.get('reuse'):
                    stats.cls('B/decorator-object-used-twice/%s' % d['kind'])
                rb = cpbind.binder(rview)
                kp = cpbind.kwpassable(rview)
                pool = list(dict.fromkeys(list(kp) + sorted(alln - {'self'}) + ['q', 'zz']))[:9]
                cap = cpbind.poscap(rview)
                off = 1 if needs_self else 0
                if needs_self and not (rview and rview[0][0] == 'self' and rview[0][1] in (PO, POK)):
                    stats.cls('B/unbound-without-self (not executed)')
                    continue
                exact = (not any(p.kind in (PO, POK) and p.default is not None for p in so)
                         and not fl['hide_args'] and not fl['hide_kwargs'] and not fl['partial'])
                reached = 0
                bad = None
                for npos in range(cap + 2):
                    for r in range(4):
                        for K in itertools.combinations(pool, r):
                            if not all((k in kp) or (k not in alln) for k in K):
                                continue
                            if set(K) & set(d['names']):
                                continue
                            if needs_self and npos < off:
                                continue
                            acc = rb.accepts(npos, K)
                            if not acc and not exact:
                                continue
                            ok = False
                            last = None
                            for ha in ha_c:
                                for hk in hk_c:
                                    out, info = execute(g, target, bool(off), npos - off, K, ha, hk)
                                    if out != 'TypeError':
                                        ok = True
                                        if out == 'ok' and info:
                                            reached += 1
                                        break
                                    last = info
                                if ok:
                                    break
                            if acc and not ok:
                                bad = ('C04/B/unsound/%s/%s' % (d['kind'], 'hidden' if (fl['hide_args'] or fl['hide_kwargs']) else 'partial' if fl['partial'] else 'plain'),
                                       '%s accepts the non-colliding call with %d positionals and keywords %s but executing it raises TypeError: %s\n%s' % (
                                           desc, npos, list(K), last, src), [npos, list(K)])
                            elif not acc and ok and exact:
                                bad = ('C04/B/inexact/%s' % d['kind'],
                                       '%s rejects the non-colliding call with %d positionals and keywords %s but executing it works (no defaulted '
                                       'outer positional, no hide_*, no partial)\n%s' % (desc, npos, list(K), src), [npos, list(K)])
                            if bad:
                                break
                        if bad:
                            break
                    if bad:
                        break
                if bad:
                    stats.fail(bad[0], dict(case, form=form, via=gname, shape=bad[2]), bad[1])
                    continue
                differs = [x[:2] for x in rview] != [x[:2] for x in universe.sig_view(plain)]
                if differs and reached and any(p.name in R.parameters for p in si):
                    stats.nontriv((d['kind'], d['emulate'], form, gname, universe.spec_text(so), universe.spec_text(si), d['n'], tuple(d['names']),
                                   tuple(sorted(fl.items()))))
                    stats.sample('B/%s/%s' % (d['kind'], form), {'source': src.split('HK = {}\n')[1], 'via': gname, 'reported': str(R)})
            if len(sigs) == 2 and params(sigs['sigtools.signature']) != params(sigs['inspect.signature']):
                stats.fail('C04/B/emulate-differs', dict(case, form=form),
                           'emulate=True: inspect.signature(%s target) = %s but sigtools.signature = %s\n%s' % (
                               form, sigs['inspect.signature'], sigs['sigtools.signature'], src))
    finally:
        realfn.unload(g)


def check_case(case, stats):
    if case.get('part') == 'A':
        check_identity(tuple(Par(*p) for p in case['outer']), tuple(Par(*p) for p in case['inner']), case['n'], tuple(case['names']), case['flags'], stats)
    else:
        check_decl(case, stats)


def st_identity():
    from hypothesis import strategies as st

    @st.composite
    def build(draw):
        so = draw(universe.st_spec(('a', 'b', 'c', 'd'), max_named=4, p_star=0.8))
        si = draw(universe.st_spec(('x', 'y', 'z', 'a'), max_named=4, p_star=0.5))
        cap = sum(1 for p in si if p.kind in (PO, POK))
        n = draw(st.integers(0, cap + 1))
        pool = [p.name for p in si if p.kind in (POK, KWO)] + ['q']
        names = list(draw(st.permutations(pool)))[:draw(st.integers(0, min(3, len(pool))))]
        fl = draw(st.sampled_from(FLAGSETS))
        return {'part': 'A', 'outer': [list(p) for p in so], 'inner': [list(p) for p in si], 'n': n, 'names': names, 'flags': dict(fl)}
    return build()


def shard_hyp(arg):
    seed, n, which = arg
    st = Stats()
    hyp_search(st_decl() if which == 'B' else st_identity(), check_case, st, n, seed)
    return st


def run(ctx):
    total = Stats()
    outs = [s for s in universe.enum_specs(('a', 'b'), 2, ('args',), ('kwargs',)) if any(p.kind in (VP, VK) for p in s)]
    inns = universe.enum_specs(('a', 'x', 'y'), 2, ('args', 'p'), ('kwargs', 'k'))
    pairs = ctx.stride([(o, i) for o in outs for i in inns], ctx.pick(0.004, 0.15))
    total.merge(ctx.pmap(shard_identity, [(pairs[i::64],) for i in range(64) if pairs[i::64]]))
    if not ctx.quick:
        total.exhaustive['Part A: 15% stride of 220 outers x 1 305 inners, every n, name tuple (<=2, every order) and flag set'] = len(pairs)
    nb = ctx.pick(1600, 32000)
    tasks = [(s, nb // 16, 'B') for s in ctx.shard_seeds(16)]
    tasks += [(s + 50, ctx.pick(4000, 64000) // 16, 'A') for s in ctx.shard_seeds(16)]
    total.merge(ctx.pmap(shard_hyp, tasks))
    return total


def replay(case, stats):
    case = dict(case)
    case.pop('source', None)
    for k in ('form', 'via', 'shape'):
        case.pop(k, None)
    check_case(case, stats)
