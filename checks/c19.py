"""C19 -- functools.partial objects get the signature Python actually enforces.

Differential against the real partial object: for p = partial(f, *bound, **kw) and every non-colliding
call shape c,  accepts(signatures.signature(p), c)  <=>  p(*c) does not raise TypeError  (same for
sigtools.signature(p)); retrieval raises ValueError <=> the partial accepts no call at all.
Structural clauses: bound positionals disappear; a keyword bound to a positional-or-keyword parameter
makes it and all followers keyword-only with `default is <bound object>` and removes *args; a keyword
absorbed by **kwargs shows up keyword-only, sourced to the partial object; the partial has depth 0;
the result does not depend on keyword insertion order.  Discovery through a partial of a forwarding
wrapper resolves the callee from bound positionals (checked by executing the partial) and not from
bound keywords (result equals the plain signature)."""
import functools
import inspect
import itertools

from vlib import cpbind, realfn, universe
from vlib.framework import Stats, hyp_search
from vlib.universe import Par, PO, POK, VP, KWO, VK
from checks.c03 import canon_params

LEVEL = 'exploration'
RULE = ('E2: every function of the <=3-named universe over a,b,c (thorough; quick: stride) x bound positional count 0..P+1 x '
        'bound keyword sets (size<=3) over keyword-passable names + foreign q, each in EVERY insertion order, partial-of-partial '
        'included; compared with really calling the partial on 160 shapes (0..4 positionals x subsets of {a,b,c,q,zz}); '
        'partials of generated forwarding wrappers with the callee bound positionally / by keyword, executed on all shapes; '
        'E1 Hypothesis cases with <=5 named parameters. Non-trivial = >=1 bound argument and the partial accepts >=1 and rejects '
        '>=1 explored shape; distinct by (function, bound count, keyword tuple).')
ASSUMPTIONS = ['bound values are fresh objects; identity of defaults is compared with `is`']

KW = ('a', 'b', 'c', 'q', 'zz')
_SH = None


def shapes():
    global _SH
    if _SH is None:
        _SH = [(n, K) for n in range(5) for r in range(len(KW) + 1) for K in itertools.combinations(KW, r)]
    return _SH


def real_accepts(p, n, K):
    try:
        p(*([0] * n), **{k: 0 for k in K})
        return True
    except TypeError:
        return False


def feasible_real(p, fview):
    """Does the partial accept any call at all?  (complete for the function's own names)"""
    kw = sorted(cpbind.kwpassable(fview))
    for m in range(cpbind.poscap(fview) + 2):
        for r in range(len(kw) + 1):
            for K in itertools.combinations(kw, r):
                if real_accepts(p, m, K):
                    return True
    return False


class Val(object):
    def __init__(self, tag):
        self.tag = tag

    def __repr__(self):
        return '<%s>' % self.tag


def retrieve(getter, p):
    try:
        return getter(p), None
    except ValueError as e:
        return None, e


def check_partial(spec, n, names, stats, enum=True, shp=None, perms=None, nested=False):
    """names: tuple in canonical (sorted) order; every permutation in `perms` is retrieved."""
    import sigtools
    from sigtools import signatures
    f = realfn.plain_function(spec, 'f')
    fview = universe.spec_view(spec)
    vals = {k: Val('bound_' + k) for k in names}
    bound = tuple(Val('pos%d' % i) for i in range(n))
    case = {'spec': list(map(list, spec)), 'n': n, 'names': list(names), 'nested': nested}
    desc = 'partial(f(%s), %s%s)' % (universe.spec_text(spec), ', '.join(['<pos>'] * n), ''.join(', %s=<v>' % k for k in names))
    shp = shp or shapes()
    first = {}
    for perm in (perms or [names]):
        if nested and (n or perm):
            p = functools.partial(functools.partial(f, *bound[:n // 2 + n % 2], **{k: vals[k] for k in perm[:1]}),
                                  *bound[n // 2 + n % 2:], **{k: vals[k] for k in perm[1:]})
        else:
            p = functools.partial(f, *bound, **{k: vals[k] for k in perm})
        for which, getter in (('signatures.signature', signatures.signature), ('sigtools.signature', sigtools.signature)):
            stats.case()
            pcase = dict(case, names=list(perm), via=which)
            pdesc = '%s via %s' % (desc if perm == names else desc + ' [keyword order %s]' % (list(perm),), which)
            try:
                sig, exc = retrieve(getter, p)
            except Exception as e:
                # retrieval either returns or raises ValueError (inspect's contract for "no signature")
                stats.fail('C19/raised-%s' % type(e).__name__, pcase, '%s raised %s: %s' % (pdesc, type(e).__name__, e))
                continue
            view = None if sig is None else (canon_params_ident(sig), )
            if which not in first:
                first[which] = (perm, view, sig)
                # full differential on the first permutation only; others must equal it
                racc = [real_accepts(p, m, K) for m, K in shp]
                anyreal = any(racc) or feasible_real(p, fview)
                if sig is None:
                    stats.cls('raised')
                    if anyreal:
                        stats.fail('C19/raise-but-callable', pcase, '%s raised %s but the partial accepts some call' % (pdesc, exc))
                    try:
                        inspect.signature(p)
                        stats.fail('C19/raise-but-inspect-succeeds', pcase, '%s raised %s but inspect.signature succeeds' % (pdesc, exc))
                    except ValueError:
                        pass
                    continue
                stats.cls('returned')
                if not anyreal:
                    stats.fail('C19/return-but-uncallable', pcase, '%s -> %s but the partial accepts no call at all' % (pdesc, sig))
                rview = universe.sig_view(sig)
                rb = cpbind.binder(rview)
                kp = cpbind.kwpassable(rview)
                alln = set(x for x, k, d in fview)
                nacc = nrej = 0
                for (m, K), ra in zip(shp, racc):
                    if not all((k in kp) or (k not in alln) for k in K):
                        continue
                    sa = rb.accepts(m, K)
                    nacc += ra
                    nrej += (not ra)
                    if sa != ra:
                        stats.fail('C19/%s' % ('unsound' if sa else 'inexact'), dict(pcase, shape=[m, list(K)]),
                                   '%s -> %s %s (npos=%d, kw=%s) but the partial object %s it' % (
                                       pdesc, sig, 'accepts' if sa else 'rejects', m, list(K), 'accepts' if ra else 'rejects'))
                        break
                if (n or names) and nacc and nrej and which == 'signatures.signature':
                    if enum:
                        stats.nontriv_enum()
                    else:
                        stats.nontriv((universe.spec_text(spec), n, names, nested))
                    stats.sample('returned', {'partial': desc, 'signature': str(sig)})
                structural(spec, fview, n, names, vals, p, sig, pcase, pdesc, stats)
            else:
                perm0, view0, sig0 = first[which]
                if view != view0:
                    stats.fail('C19/keyword-order', dict(pcase, other=list(perm0)),
                               '%s -> %s but with keyword order %s -> %s' % (pdesc, sig if sig is not None else 'ValueError', list(perm0),
                                                                              sig0 if sig0 is not None else 'ValueError'))


def canon_params_ident(sig):
    """Parameters up to keyword-only order, defaults by identity."""
    ps = [(p.name, int(p.kind), id(p.default) if p.default is not p.empty else None) for p in sig.parameters.values()]
    return (tuple(p for p in ps if p[1] != KWO), tuple(sorted(p for p in ps if p[1] == KWO)))


def structural(spec, fview, n, names, vals, p, sig, case, desc, stats):
    params = sig.parameters
    pos = [x for x, k, d in fview if k in (PO, POK)]
    for x in pos[:n]:
        if x in params and x not in names:
            stats.fail('C19/struct/bound-positional-still-there', case, '%s -> %s still has %r' % (desc, sig, x))
    poks = [x for x, k, d in fview if k == POK]
    named_pok = [x for x in names if x in poks and x not in pos[:n]]
    if named_pok:
        firsti = min(poks.index(x) for x in named_pok)
        for x in poks[firsti:]:
            if x in params and params[x].kind != KWO:
                stats.fail('C19/struct/follower-not-keyword-only', case, '%s -> %s: %r should be keyword-only' % (desc, sig, x))
        if any(q.kind == VP for q in params.values()):
            stats.fail('C19/struct/varargs-kept', case, '%s -> %s keeps *args after a positional-or-keyword parameter was bound by keyword' % (desc, sig))
    fnames = set(x for x, k, d in fview if k in (POK, KWO))
    stars = set(q.name for q in params.values() if q.kind in (VP, VK))
    for x in names:
        if x in stars:
            continue        # spelled like a star parameter that is still there: cannot be shown as a parameter of its own, **kwargs takes it
        if x not in params:
            stats.fail('C19/struct/bound-keyword-missing', case, '%s -> %s lacks the bound keyword %r' % (desc, sig, x))
            continue
        q = params[x]
        if q.kind != KWO or q.default is not vals[x]:
            stats.fail('C19/struct/bound-keyword-default', case, '%s -> %s: %r should be keyword-only with the bound object as default (got kind=%s default=%r)' % (
                desc, sig, x, q.kind, q.default))
        if x not in fnames:
            src = sig.sources.get(x)
            if src is None or len(src) != 1 or src[0] is not p:
                stats.fail('C19/struct/absorbed-keyword-source', case, '%s: sources[%r] = %r, expected [the partial object]' % (desc, x, src))
    d = sig.sources.get('+depths', {})
    if d.get(p) != 0:
        stats.fail('C19/struct/depth', case, "%s: sources['+depths'][partial] = %r, expected 0" % (desc, d.get(p)))


def work_spec(spec, stats):
    check_odd_keywords(spec, stats)
    fview = universe.spec_view(spec)
    P = cpbind.poscap(fview)
    cand = sorted(cpbind.kwpassable(fview)) + ['q']
    if any(k == VK for x, k, d in fview):
        # a keyword spelled like a star parameter is absorbed by **kwargs like any other
        cand += [x for x, k, d in fview if k in (VP, VK)]
    i = 0
    for n in range(P + 2):
        for r in range(0, 4):
            for names in itertools.combinations(cand, r):
                i += 1
                check_partial(spec, n, names, stats, True, perms=list(itertools.permutations(names)), nested=(i % 5 == 0))


def shard(arg):
    specs, = arg
    st = Stats()
    for s in specs:
        work_spec(s, st)
    return st


# partials of forwarding wrappers -------------------------------------------------------

def check_wrapper_partial(so, si, how, stats):
    """so: wrapper parameters after `fn` (must hold *args/**kwargs); si: callee spec."""
    import sigtools
    from sigtools import signatures
    stats.case()
    has_va = any(p.kind == VP for p in so)
    has_vk = any(p.kind == VK for p in so)
    va = next((p.name for p in so if p.kind == VP), None)
    vk = next((p.name for p in so if p.kind == VK), None)
    parts = [x for x in ('*' + va if has_va else '', '**' + vk if has_vk else '') if x]
    src = ('def callee(%s):\n    return 0\n\ndef wrapper(%s):\n    return fn(%s)\n' % (
        universe.spec_text(si), universe.spec_text((Par('fn', POK),) + so), ', '.join(parts)))
    case = {'kind': 'wrapper', 'outer': list(map(list, so)), 'inner': list(map(list, si)), 'how': how, 'source': src}
    g = realfn.load(src)
    try:
        w, callee = g['wrapper'], g['callee']
        bound_kw = {}
        if how.startswith('positional+'):
            # ... and a keyword of the callee bound through the partial object as well
            kwn = sorted(cpbind.kwpassable(universe.spec_view(si)))
            if not kwn or not has_vk:
                return
            bound_kw = {kwn[-1 if how.endswith('last') else 0]: 0}
        p = functools.partial(w, callee, **bound_kw) if how.startswith('positional') else functools.partial(w, fn=callee)
        try:
            sig = sigtools.signature(p)
        except ValueError as e:
            stats.cls('wrapper/%s/raised' % how)
            return
        plain = signatures.signature(p)
        desc = 'partial(wrapper, %scallee) for\n%s' % ('' if how == 'positional' else 'fn=', src)
        if sig.sources.get('+depths', {}).get(p) != 0:
            stats.fail('C19/wrapper/depth', case, "%s: sources['+depths'][partial] = %r" % (desc, sig.sources.get('+depths', {}).get(p)))
        if how == 'keyword':
            stats.cls('wrapper/keyword')
            if universe.spec_from_sig(sig)[:0] != () or [(q.name, q.kind) for q in sig.parameters.values()] != [(q.name, q.kind) for q in plain.parameters.values()]:
                stats.fail('C19/wrapper/keyword-resolved', case, '%s: discovery reports %s, plain signature is %s' % (desc, sig, plain))
            return
        resolved = [(q.name, q.kind) for q in sig.parameters.values()] != [(q.name, q.kind) for q in plain.parameters.values()]
        stats.cls('wrapper/%s/%s' % (how, 'resolved' if resolved else 'plain'))
        p2 = PSub(w, callee, **bound_kw)
        try:
            sig2 = sigtools.signature(p2)
        except ValueError:
            sig2 = None
        if sig2 is None or [(q.name, q.kind) for q in sig2.parameters.values()] != [(q.name, q.kind) for q in sig.parameters.values()]:
            stats.fail('C19/wrapper/partial-subclass-differs', case, '%s: reported %s; for an instance of a subclass of functools.partial over the same: %s' % (
                desc, sig, sig2 if sig2 is not None else 'ValueError'))
        if how == 'positional':
            # the bound callee is an object whose truth value is its own business (an empty callable container is false):
            # what is reported for it does not depend on that
            ns = dict(g)
            exec('class Hooks(object):\n    def __init__(self, n):\n        self.n = n\n    def __len__(self):\n        return self.n\n'
                 '    def __call__(%s):\n        return 0\n' % universe.spec_text((Par('self', PO if any(q.kind == PO for q in si) else POK),) + tuple(si)), ns)
            views = []
            for n in (0, 1):
                try:
                    sh = sigtools.signature(functools.partial(w, ns['Hooks'](n)))
                    views.append([(q.name, q.kind) for q in sh.parameters.values()])
                except ValueError:
                    views.append(None)
            stats.case()
            if views[0] != views[1]:
                stats.fail('C19/wrapper/depends-on-truth-value-of-the-callee', case,
                           '%s with callee = an instance of a class with __call__(self, %s) and __len__: reported parameters %r while len() is 0 and %r while it is 1' % (
                               desc, universe.spec_text(si), views[0], views[1]))
        if resolved:
            stats.nontriv((universe.spec_text(so), universe.spec_text(si), how))
            stats.sample('wrapper/positional', {'source': src, 'reported': str(sig)})
        rview = universe.sig_view(sig)
        rb = cpbind.binder(rview)
        kp = cpbind.kwpassable(rview)
        alln = set(q.name for q in so) | set(q.name for q in si) | {'fn'}
        exact_ok = not any(q.kind in (PO, POK) and q.default is not None for q in so)
        for m, K in shapes():
            if set(K) & set(bound_kw):
                continue        # overriding the bound keyword: not what this clause is about
            if not all((k in kp) or (k not in alln) for k in K):
                continue
            sa = rb.accepts(m, K)
            ra = real_accepts(p, m, K)
            if sa and not ra and resolved:   # an unresolved (plain) report is the allowed fallback
                stats.fail('C19/wrapper/unsound', dict(case, shape=[m, list(K)]), '%s reports %s which accepts (npos=%d, kw=%s) but calling raises TypeError' % (desc, sig, m, list(K)))
                break
            if ra and not sa and exact_ok and resolved:
                stats.fail('C19/wrapper/inexact', dict(case, shape=[m, list(K)]), '%s reports %s which rejects (npos=%d, kw=%s) but the call works' % (desc, sig, m, list(K)))
                break
    finally:
        realfn.unload(g)


def check_wrapper_variants(so, si, stats):
    """The callee parameter has a default and is NOT bound (must stay unresolved: only bound
    positionals resolve callee parameters); the wrapper is a bound method and the callee IS bound
    positionally (must resolve exactly like the plain-function twin)."""
    import sigtools
    from sigtools import signatures
    va = next((p.name for p in so if p.kind == VP), None)
    vk = next((p.name for p in so if p.kind == VK), None)
    parts = ', '.join(x for x in ('*' + va if va else '', '**' + vk if vk else '') if x)
    if any(p.kind == PO for p in so):
        return
    so_text = ''.join(', ' + x for x in [universe.spec_text(so)] if x)
    src = ('def callee(%s):\n    return 0\n\ndef other(*args, **kwargs):\n    return 0\n\n'
           'def wdefault(tag, fn=callee%s):\n    return fn(%s)\n\n'
           'def wfunc(fn, tag%s):\n    return fn(%s)\n\n'
           'class K(object):\n    def wmeth(self, fn, tag%s):\n        return fn(%s)\n' % (
               universe.spec_text(si), so_text, parts, so_text, parts, so_text, parts))
    if so and all(p.kind in (VP, VK) for p in so):
        stars = ''.join(', ' + x for x in ('*' + va if va else '', '**' + vk if vk else '') if x)
        src += ('from sigtools import modifiers\n@modifiers.kwoargs("opt")\ndef wkw(fn, tag, opt=False%s):\n    return fn(%s)\n\n'
                'def wnative(fn, tag, %s, opt=False%s):\n    return fn(%s)\n' % (
                    stars, parts, ('*' + va) if va else '*', (', **' + vk) if vk else '', parts))
    if any(p.kind in (PO, POK) and p.default is None for p in so):
        return      # a required positional after fn=default is not valid Python
    case = {'kind': 'wrapper-variants', 'outer': list(map(list, so)), 'inner': list(map(list, si)), 'source': src}
    try:
        g = realfn.load(src)
    except SyntaxError:
        return
    try:
        stats.case()
        nk = lambda s: [(q.name, int(q.kind)) for q in s.parameters.values()]
        p1 = functools.partial(g['wdefault'], 'job')
        try:
            s1, plain1 = sigtools.signature(p1), signatures.signature(p1)
        except ValueError:
            stats.cls('wrapper/default/raised')
        else:
            stats.cls('wrapper/default')
            if nk(s1) != nk(plain1):
                stats.fail('C19/wrapper/default-resolved', case,
                           'partial(wdefault, "job") leaves fn unbound (its default is only a default): sigtools.signature gives %s, plain %s\n%s' % (s1, plain1, src))
        # the same wrapper under a modifiers decorator (discovery then runs from the decorator's hint) vs its native spelling
        if 'wkw' in g:
            try:
                sk, sn = sigtools.signature(functools.partial(g['wkw'], g['callee'])), sigtools.signature(functools.partial(g['wnative'], g['callee']))
            except ValueError:
                sk = sn = None
            stats.cls('wrapper/modifiers-twin')
            if (sk is None) != (sn is None) or (sk is not None and sorted(nk(sk)) != sorted(nk(sn))):
                stats.fail('C19/wrapper/modifiers-twin', case,
                           'partial(wkw, callee) with @modifiers.kwoargs("opt") -> %s but the natively keyword-only twin -> %s\n%s' % (sk, sn, src))
        pf = functools.partial(g['wfunc'], g['callee'])
        pm = functools.partial(g['K']().wmeth, g['callee'])
        try:
            sf = sigtools.signature(pf)
        except ValueError:
            sf = None
        try:
            sm = sigtools.signature(pm)
        except ValueError:
            sm = None
        stats.cls('wrapper/method-twin')
        if (sf is None) != (sm is None) or (sf is not None and nk(sf) != nk(sm)):
            stats.fail('C19/wrapper/method-twin', case,
                       'partial(wfunc, callee) -> %s but partial(K().wmeth, callee) -> %s (same body, bound method)\n%s' % (sf, sm, src))
        elif sf is not None and nk(sf) != nk(signatures.signature(pf)):
            stats.nontriv(('method-twin', universe.spec_text(so), universe.spec_text(si)))
            depths = sm.sources['+depths']
            if depths.get(pm) != 0:
                stats.fail('C19/wrapper/method-depth', case, "partial(K().wmeth, callee): sources['+depths'][partial] = %r\n%s" % (depths.get(pm), src))
    finally:
        realfn.unload(g)


def check_sequence(spec, stats):
    """History independence: the signature of one partial object does not depend on other partial objects of the
    same function having been looked at before (functions that carry a stored signature: modifiers-wrapped ones)."""
    import sigtools
    from sigtools import modifiers, signatures
    pok = [p.name for p in spec if p.kind == POK]
    if not pok or not any(p.kind == VK for p in spec):
        return
    stats.case()
    case = {'kind': 'sequence', 'spec': list(map(list, spec))}

    def fresh():
        return modifiers.kwoargs(pok[-1])(realfn.plain_function(spec, 'f', cache=False))

    def view(sig, objs):
        lab = lambda f: next((k for k, v in objs.items() if v is f), getattr(f, '__name__', type(f).__name__))
        return ([(q.name, int(q.kind)) for q in sig.parameters.values()],
                sorted((k, [lab(f) for f in v]) for k, v in sig.sources.items() if k != '+depths'),
                sorted((lab(f), d) for f, d in sig.sources['+depths'].items()))
    npos = 1 if pok[0] != pok[-1] else 0
    try:
        g1 = fresh()
        b1 = functools.partial(g1, **{pok[-1]: 5})
        alone = view(signatures.signature(b1), {'g': g1, 'B': b1})
        g2 = fresh()
        a2 = functools.partial(g2, *([1] * npos), colour='red', zz=1)
        signatures.signature(a2)
        sigtools.signature(a2)
        b2 = functools.partial(g2, **{pok[-1]: 5})
        after = view(signatures.signature(b2), {'g': g2, 'B': b2, 'A': a2})
        own = view(signatures.signature(g2), {'g': g2})
        own1 = view(signatures.signature(fresh()), {})
    except ValueError:
        stats.cls('sequence/raised')
        return
    stats.cls('sequence')
    stats.nontriv(('sequence', universe.spec_text(spec)))
    if after != alone:
        stats.fail('C19/sequence/partial-after-partial', case,
                   'def f(%s) under kwoargs(%r): signature of partial(f, %s=5) is %r when taken first but %r after the signature of partial(f, %scolour=..., zz=...) was taken' % (
                       universe.spec_text(spec), pok[-1], pok[-1], alone, after, '1, ' * npos))
    elif own[0] != own1[0] or [x for x in own[1]] != [(k, ['g' if l == 'f' else l for l in v]) for k, v in own1[1]] and False:
        stats.fail('C19/sequence/function-after-partial', case, 'signature of the function changed after its partial objects were inspected: %r vs %r' % (own, own1))


def check_odd_keywords(spec, stats):
    """Keywords absorbed by **kwargs that are not identifiers (or are Python keywords) make a legal partial object."""
    import sigtools
    from sigtools import signatures
    if not any(p.kind == VK for p in spec):
        return
    f = realfn.plain_function(spec, 'f')
    fview = universe.spec_view(spec)
    for odd in ({'x-y': 1}, {'class': 1}, {'x-y': 1, 'q': 2}):
        p = functools.partial(f, **odd)
        for which, getter in (('signatures.signature', signatures.signature), ('sigtools.signature', sigtools.signature)):
            stats.case()
            stats.cls('odd-keywords')
            case = {'kind': 'odd-keywords', 'spec': list(map(list, spec)), 'keywords': sorted(odd)}
            desc = 'partial(f(%s), **%r) via %s' % (universe.spec_text(spec), odd, which)
            try:
                inspect.signature(p)
            except (ValueError, TypeError):
                continue
            try:
                sig = getter(p)
            except Exception as e:
                stats.fail('C19/odd-keywords/raised', case, '%s raised %s: %s where inspect.signature succeeds' % (desc, type(e).__name__, e))
                continue
            rb = cpbind.binder(universe.sig_view(sig))
            for m, K in shapes():
                if set(K) & set(odd):
                    continue
                if rb.accepts(m, K) != real_accepts(p, m, K) and all(k in cpbind.kwpassable(universe.sig_view(sig)) or k not in set(x for x, k_, d in fview) for k in K):
                    stats.fail('C19/odd-keywords/differs', dict(case, shape=[m, list(K)]), '%s -> %s disagrees with the partial object on (npos=%d, kw=%s)' % (desc, sig, m, list(K)))
                    break
            stats.nontriv(('odd', universe.spec_text(spec), tuple(sorted(odd))))


class PSub(functools.partial):
    """A subclass of functools.partial (a command object, say): a partial object like any other."""


def check_chain_partial(si, nbound, stats):
    """A two-level chain looked through a partial object: apply_first(c, first, *args, **kwargs) calls c(first, *args, **kwargs) with
    c = relay(fn, *a, **k) -> fn(*a, **k); the partial object binds c, first and `nbound` more positionals (which spill into
    *args): the values reach relay in the order explicit positionals, then *args.  Also: the same through a partial subclass."""
    import sigtools
    from sigtools import signatures
    stats.case()
    src = ('def callee(%s):\n    return 0\n\ndef other(only_other, /):\n    return 1\n\n'
           'def relay(fn, *a, **k):\n    return fn(*a, **k)\n\n'
           'def apply_first(c, first, *args, **kwargs):\n    return c(first, *args, **kwargs)\n' % universe.spec_text(si))
    case = {'kind': 'chain', 'inner': list(map(list, si)), 'nbound': nbound, 'source': src}
    g = realfn.load(src)
    try:
        extra = [g['other'], 0, 0][:nbound]        # spilled values: a callable first, so that a wrong order resolves to it
        ref = refsig = None
        for cls, label in ((functools.partial, 'functools.partial'), (PSub, 'a subclass of functools.partial')):
            p = cls(g['apply_first'], g['relay'], g['callee'], *extra)
            desc = '%s(apply_first, relay, callee%s) for\n%s' % (label, ''.join(', <v>' for _ in extra), src)
            try:
                sig = sigtools.signature(p)
            except ValueError:
                stats.cls('chain/raised')
                continue
            plain = signatures.signature(p)
            resolved = [(q.name, q.kind) for q in sig.parameters.values()] != [(q.name, q.kind) for q in plain.parameters.values()]
            stats.cls('chain/%s/%s' % ('subclass' if cls is PSub else 'partial', 'resolved' if resolved else 'plain'))
            if cls is PSub:
                if ref is not None and [(q.name, q.kind) for q in sig.parameters.values()] != ref:
                    stats.fail('C19/chain/partial-subclass-differs', case, '%s: reported %s, for a plain functools.partial %s' % (desc, sig, refsig))
                if sig.sources.get('+depths', {}).get(p) != 0:
                    stats.fail('C19/chain/depth', case, "%s: sources['+depths'][partial] = %r" % (desc, sig.sources.get('+depths', {}).get(p)))
                continue
            ref, refsig = [(q.name, q.kind) for q in sig.parameters.values()], sig
            if not any(real_accepts(p, m, K) for m, K in shapes()):
                # the bound values cannot be passed on at all: every call of the partial object raises, there is nothing to honour
                stats.cls('chain/uncallable')
                continue
            if resolved:
                stats.nontriv(('chain', universe.spec_text(si), nbound))
                stats.sample('chain', {'source': src, 'bound': nbound, 'reported': str(sig)})
            rb = cpbind.binder(universe.sig_view(sig))
            kp = cpbind.kwpassable(universe.sig_view(sig))
            alln = set(q.name for q in si) | {'c', 'first', 'fn', 'only_other'}
            for m, K in shapes():
                if not all((k in kp) or (k not in alln) for k in K):
                    continue
                sa, ra = rb.accepts(m, K), real_accepts(p, m, K)
                if sa and not ra and resolved:
                    stats.fail('C19/chain/unsound', dict(case, shape=[m, list(K)]), '%s reports %s which accepts (npos=%d, kw=%s) but calling raises TypeError' % (desc, sig, m, list(K)))
                    break
                if ra and not sa and resolved:
                    stats.fail('C19/chain/inexact', dict(case, shape=[m, list(K)]), '%s reports %s which rejects (npos=%d, kw=%s) but the call works' % (desc, sig, m, list(K)))
                    break
    finally:
        realfn.unload(g)


def shard_wrappers(arg):
    pairs, = arg
    st = Stats()
    done = set()
    for so, si in pairs:
        if si not in done:
            done.add(si)
            for nb in (0, 1, 2):
                check_chain_partial(si, nb, st)
        check_sequence(si, st)
        check_wrapper_variants(so, si, st)
        for how in ('positional', 'keyword', 'positional+kwfirst', 'positional+kwlast'):
            check_wrapper_partial(so, si, how, st)
    return st


HN = ('a', 'b', 'c', 'd', 'e')


def st_case():
    from hypothesis import strategies as st

    @st.composite
    def build(draw):
        spec = draw(universe.st_spec(HN, 5, ('args',), ('kwargs',)))
        fview = universe.spec_view(spec)
        n = draw(st.integers(0, cpbind.poscap(fview) + 1))
        cand = sorted(cpbind.kwpassable(fview)) + ['q', 'zz']
        names = tuple(draw(st.permutations(cand)))[:draw(st.integers(0, min(4, len(cand))))]
        return (spec, n, names, draw(st.booleans()))
    return build()


_hs = {}


def check_hyp(case, stats):
    spec, n, names, nested = case
    kn = tuple(p.name for p in spec if p.kind in (PO, POK, KWO))[:5] + ('q', 'zz')
    key = (kn, cpbind.poscap(universe.spec_view(spec)) + 1)
    if key not in _hs:
        if len(_hs) > 100:
            _hs.clear()
        _hs[key] = [(m, K) for m in range(key[1] + 1) for r in range(4) for K in itertools.combinations(kn, r)]
    names = tuple(names)
    perms = [tuple(sorted(names)), names, tuple(reversed(names))]
    perms = list(dict.fromkeys(perms))
    check_partial(spec, n, tuple(sorted(names)), stats, False, shp=_hs[key], perms=perms, nested=nested)


def shard_hyp(arg):
    seed, n = arg
    st = Stats()
    hyp_search(st_case(), check_hyp, st, n, seed)
    return st


def run(ctx):
    total = Stats()
    U3 = universe.enum_specs(('a', 'b', 'c'), 3, ('args',), ('kwargs',))
    specs = ctx.stride(U3, ctx.pick(0.06, 1.0))
    total.merge(ctx.pmap(shard, [(specs[i::128],) for i in range(128) if specs[i::128]]))
    if not ctx.quick:
        total.exhaustive['functions of the <=3-named universe x bound counts x keyword sets(<=3) in every order'] = len(U3)
    outs = [s for s in universe.enum_specs(('a',), 1, ('args',), ('kwargs',)) if any(p.kind in (VP, VK) for p in s)]
    inns = universe.enum_specs(('x', 'y', 'a'), 2, ('args',), ('kwargs',))
    pairs = ctx.stride([(o, i) for o in outs for i in inns], ctx.pick(0.05, 1.0))
    total.merge(ctx.pmap(shard_wrappers, [(pairs[i::64],) for i in range(64) if pairs[i::64]]))
    nh = ctx.pick(2400, 32000)
    total.merge(ctx.pmap(shard_hyp, [(s, nh // 16) for s in ctx.shard_seeds(16)]))
    return total


def replay(case, stats):
    if case.get('kind') == 'sequence':
        check_sequence(tuple(Par(*p) for p in case['spec']), stats)
        return
    if case.get('kind') == 'odd-keywords':
        check_odd_keywords(tuple(Par(*p) for p in case['spec']), stats)
        return
    if case.get('kind') == 'chain':
        check_chain_partial(tuple(Par(*p) for p in case['inner']), case['nbound'], stats)
        return
    if case.get('kind') == 'wrapper-variants':
        check_wrapper_variants(tuple(Par(*p) for p in case['outer']), tuple(Par(*p) for p in case['inner']), stats)
        return
    if case.get('kind') == 'wrapper':
        check_wrapper_partial(tuple(Par(*p) for p in case['outer']), tuple(Par(*p) for p in case['inner']), case['how'], stats)
        return
    spec = tuple(Par(*p) for p in case['spec'])
    names = tuple(case['names'])
    check_hyp((spec, case['n'], names, case.get('nested', False)), stats)
