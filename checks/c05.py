"""C05 -- automatic discovery never reports a signature the function cannot honour.

Domain: programs of the forwarding grammar (vlib/progs.py), drawn by Hypothesis as one
structured value, loaded from in-memory source, analysed by sigtools.signature and then
*executed* on every non-colliding call shape the reported signature accepts.

Oracle (R = sigtools.signature(target), P = signatures.signature(target)):
 (A) R has P's parameters (the allowed fallback), or every non-colliding shape R accepts runs
     without TypeError -- for every branch selection, and, where a star-argument's run-time
     value is not the caller's (foreign star-argument, star rebound to harness-controlled
     values), for *some* hidden value (the existential reading of hide_args / hide_kwargs);
     shapes that would put caller content into a star the program mutates or combines (and
     still passes on) are not executed: there the property only demands clause (B).
 (B) when *args (**kwargs) is tainted before the forwarding calls or combined with other
     star-arguments in every call, R advertises no positional (keyword-passable) parameter
     of a callee.
 (T) sigtools.signature never raises on a program (retrieval falls back instead).
"""
import itertools

from vlib import cpbind, progs, universe
from vlib.framework import Stats, hyp_search
from vlib.universe import Par, PO, POK, VP, KWO, VK

LEVEL = 'exploration'
RULE = ('non-trivial: the reported signature differs from the plain one and >=1 accepted shape was executed down to a leaf '
        'callee, or the program is tainted / unresolvable / ill-formed (the fallback and hiding classes); distinct by program skeleton '
        '(route, decoration, calls with their star modes, names, contexts, taints, outer and callee signatures)')
ASSUMPTIONS = ['generated bodies can raise TypeError only through argument binding (they forward, record and return)',
               'hidden values are searched over 0..cap+1 positionals and subsets (<=5 names) of the callees\' keyword-passable names',
               'loops around forwarding calls and flow-sensitive taints are outside the grammar']

MAXKW = 3


def params_key(sig):
    """Parameters up to the names of star parameters (which no call can observe)."""
    return tuple(('*' if int(p.kind) in (VP, VK) else p.name, int(p.kind), p.default is not p.empty)
                 for p in sig.parameters.values())


def hidden_channels(b):
    """(args channel?, kwargs channel?) -- whether HA / HK can reach a callee."""
    prog = b.prog
    ts = progs.taint_state(prog)
    ca = any(c['sa'] in ('foreign', 'own+f') for c in prog['calls']) or \
        (ts['args'][1] in ('hidden', 'both') and any('own' in c['sa'] for c in prog['calls']))
    ck = any(c['sk'] in ('foreign', 'own+f') for c in prog['calls']) or \
        (ts['kwargs'][1] in ('hidden', 'both') and any('own' in c['sk'] for c in prog['calls'])) or \
        any(c.get('inarg') == 'mutate' for c in prog['calls']) or any(c['ctx'] in ('comp_rebinds_kwargs', 'genexp_rebinds_kwargs', 'loop_rebinds_kwargs', 'comploop_mutates_kwargs') for c in prog['calls'])
    ca = ca or any(c['ctx'] in ('comp_rebinds_args', 'genexp_rebinds_args', 'loop_rebinds_args') for c in prog['calls'])
    return ca, ck


def content_flows(b, calls=None):
    """Per star: caller-supplied content reaches a callee through a star-argument sigtools
    must treat as unknown (tainted but not replaced, or combined) in one of `calls`."""
    prog = b.prog
    out = {'args': False, 'kwargs': False}
    for j, c in enumerate(prog['calls']):
        if calls is not None and not any(c is x for x in calls):
            continue
        ts = progs.taint_state(prog, j)
        for key, mode in (('args', 'sa'), ('kwargs', 'sk')):
            tainted, flow = ts[key]
            if c[mode] in ('own+f', 'own+own', 'own+pos') or (c[mode] == 'own' and tainted and flow in ('same', 'both')):
                out[key] = True
    return out


def tainted_everywhere(b):
    """Per star: every forwarding call (one that still forwards the other star pristine)
    passes this star tainted, foreign or combined -- clause (B) applies."""
    live = [t for t in b.truth if not t['ignored']]
    return {'args': bool(live) and all(t['hide_args'] for t in live),
            'kwargs': bool(live) and all(t['hide_kwargs'] for t in live)}


def broken_star(b, j):
    """Call j unpacks a star the program rebound to a function or class: every execution
    raises TypeError whatever the caller passes; only clause (B) applies."""
    ts = progs.taint_state(b.prog, j)
    c = b.prog['calls'][j]
    return ('own' in c['sa'] and ts['args'][1] == 'broken') or ('own' in c['sk'] and ts['kwargs'][1] == 'broken')


def branch_alive(b, sel, oview, pool, ha_cands, hk_cands, budget=1500):
    """Some call the def itself accepts runs through on this branch for some hidden values."""
    ob = cpbind.binder(oview)
    okp = cpbind.kwpassable(oview)
    has_vk = any(k == VK for n, k, d in oview)
    names = [n for n in pool if n in okp or has_vk]
    tried = 0
    for npos in range(cpbind.poscap(oview) + 3):
        for r in range(3):
            for K in itertools.combinations(names, r):
                if not ob.accepts(npos, K):
                    continue
                for ha, hk in itertools.product(ha_cands, hk_cands):
                    tried += 1
                    if tried > budget:
                        return True     # undecided within the budget: treated as alive (the failure is reported)
                    out, info = b.execute(npos, tuple(K), sel, ha, hk)
                    if out != 'TypeError':
                        return True
    return False


def dead_call(b, c):
    """The written part of the call can never bind to its callee, whatever the star-arguments
    hold: every execution of that branch raises TypeError, so the function honours no call at
    all and the reported signature is not held to account there."""
    if c.get('unres'):
        return False
    view = universe.spec_view(b.leaves[c['to']])
    bd = cpbind.binder(view)
    extra = ([n for n in cpbind.kwpassable(view) if n not in c['names']] + ['q9']) if c['sk'] != 'none' else []
    for e in (range(cpbind.poscap(view) + 2) if c['sa'] != 'none' else (0,)):
        for r in range(len(extra) + 1):
            for ks in itertools.combinations(extra, r):
                if bd.accepts(c['npos'] + e, tuple(c['names']) + ks):
                    return False
    return True


def _function_signature(b):
    from sigtools import signatures
    from vlib import expect
    if b.prog['route'] in ('self_method', 'self_attr', 'self_attr_store', 'self_attr_store_arg', 'classmethod_cls', 'self_shadow_nested'):
        return signatures.signature(b.target.__func__)
    if b.prog['route'] in ('param', 'param_shadow_lambda', 'param_shadow_kwonly', 'param_default'):
        return signatures.signature(b.target.func)
    return expect._own_def_signature(b.wfunc) if hasattr(b.wfunc, '__code__') else signatures.signature(b.wfunc)


def colliding_on_branch(b, calls, K):
    """Some keyword of the shape names a parameter of the callee of one of `calls` that this
    call's own signature (public algebra on the ground truth) does not offer by keyword: for
    that call alone the shape would be a colliding one (the keyword lands in **kwargs while the
    call binds the parameter positionally or hides it); it is only non-colliding for the merged
    result because another call advertises the name."""
    from vlib import expect
    try:
        fsig = _function_signature(b)
        idx = [i for i, c in enumerate(b.prog['calls']) if any(c is x for x in calls)]
        for t, e in expect.per_call_signatures(b, fsig):
            if isinstance(e, Exception):
                continue
            if not any(b.truth[i] is t for i in idx):
                continue
            ekp = cpbind.kwpassable(universe.sig_view(e))
            cnames = set(p.name for p in b.leaves[t['to']])
            if any(k in cnames and k not in ekp for k in K):
                return True
    except Exception:
        return False
    return False


def calls_role_inconsistent(b):
    """The per-call signatures (computed from the ground truth with the public algebra) give
    some shared name different roles: merge then only vouches for all-positional and
    all-keyword calls (C01)."""
    from sigtools import signatures
    from vlib import expect
    try:
        if b.prog['route'] in ('self_method', 'self_attr', 'self_attr_store', 'self_attr_store_arg', 'classmethod_cls', 'self_shadow_nested'):
            fsig = signatures.signature(b.target.__func__)
        elif b.prog['route'] in ('param', 'param_shadow_lambda', 'param_shadow_kwonly', 'param_default'):
            fsig = signatures.signature(b.target.func)
        else:
            fsig = expect._own_def_signature(b.wfunc) if hasattr(b.wfunc, '__code__') else signatures.signature(b.wfunc)
        views = [universe.sig_view(e) for t, e in expect.per_call_signatures(b, fsig) if not isinstance(e, Exception)]
    except Exception:
        return False
    return len(views) >= 2 and not cpbind.role_consistent(views)


def input_names(b):
    names = set(p.name for p in b.outer)
    for l in b.leaves:
        names.update(p.name for p in l)
    names.update(['self', 'cls', 'fn0', 'fn1'])
    return names


def check_prog(prog, stats, executed_cap=400):
    import sigtools
    from sigtools import signatures, specifiers
    specifiers.as_forged.currently_computing.clear()
    stats.case()
    b = progs.build(prog)
    case = {'prog': prog}
    try:
        route, deco = prog['route'], prog['deco']
        try:
            P = signatures.signature(b.target)
        except Exception as e:          # the generator only produces introspectable targets
            stats.cls('plain-retrieval-raised')
            return
        if prog.get('decoys') == 1 and b.prime_with_failure():
            stats.cls('retrieved-once-before-the-callees-existed')
        try:
            R = sigtools.signature(b.target)
        except Exception as e:
            stats.fail('C05/retrieval-raised/%s' % type(e).__name__, case,
                       'sigtools.signature(TARGET) raised %s: %s (plain retrieval gives %s) for\n%s' % (type(e).__name__, e, P, b.src))
            return
        fallback = params_key(R) == params_key(P)
        ts = progs.taint_state(prog)
        tainted = ts['args'][0] or ts['kwargs'][0]
        modes = sorted(set(c['sa'] for c in prog['calls']) | set(c['sk'] for c in prog['calls']))
        special = tainted or route in progs.UNRESOLVABLE or any(m not in ('own', 'none') for m in modes) or any(c.get('unres') for c in prog['calls'])
        stats.cls('route/%s/%s' % (route, 'fallback' if fallback else 'discovered'))
        stats.cls('deco/%s/%s' % (deco, 'fallback' if fallback else 'discovered'))
        for c in prog['calls']:
            stats.cls('ctx/%s' % c['ctx'])
        for t in prog['taints']:
            stats.cls('taint/%s/%s/%s' % (t['name'], t['where'], 'fallback' if fallback else 'discovered'))
        if fallback:
            if special:
                stats.nontriv(('fallback',) + progs.skeleton(prog))
                stats.sample('fallback/' + route, {'source': b.src.split('def OTHER')[1].split('\n', 2)[2], 'reported': str(R)})
            return
        # ---------------------------------------------------------------- clause (B)
        te = tainted_everywhere(b)
        wrapperish = {id(b.wfunc), id(b.target)}
        o = b.target
        for _ in range(5):
            o = getattr(o, '__wrapped__', None) or getattr(o, 'func', None)
            if o is None:
                break
            wrapperish.add(id(o))
        leaf_kinds = {}
        for i in sorted(set(c['to'] for c in prog['calls'])):
            for p in b.leaves[i]:
                leaf_kinds.setdefault(p.name, set()).add(p.kind)
        for p in R.parameters.values():
            srcs = R.sources.get(p.name, [])
            from_callee = [f for f in srcs if id(f) not in wrapperish and id(getattr(f, 'func', None)) not in wrapperish
                           and id(getattr(f, '__func__', None)) not in wrapperish]
            own = [q for q in b.outer if q.name == p.name]
            if not from_callee or (own and len(from_callee) < len(srcs)):
                continue
            # judged by the role the parameter is advertised in: a callee parameter offered positionally
            # although *args is tainted, or by keyword although **kwargs is
            kinds = {int(p.kind)}
            if te['args'] and kinds <= {PO, POK, VP}:
                stats.fail('C05/taint-advertised/args', case,
                           '*args is rebound/deleted/combined before every forwarding call, yet the reported signature %s advertises the '
                           'callee\'s positional parameter %r for\n%s' % (R, p.name, b.src))
            if te['kwargs'] and kinds <= {POK, KWO, VK}:
                stats.fail('C05/taint-advertised/kwargs', case,
                           '**kwargs is rebound/mutated/deleted/handed over/combined before every forwarding call, yet the reported '
                           'signature %s advertises the callee\'s keyword parameter %r for\n%s' % (R, p.name, b.src))
        # ---------------------------------------------------------------- clause (A)
        rview = universe.sig_view(R)
        rb = cpbind.binder(rview)
        kp = cpbind.kwpassable(rview)
        alln = input_names(b)
        pool = [n for n in dict.fromkeys(list(kp) + sorted(alln - {'self', 'cls', 'fn0', 'fn1'}) + ['q', 'zz'])][:9]
        cap = cpbind.poscap(rview)
        ca, ck = hidden_channels(b)
        maxcap = max([cpbind.poscap(universe.spec_view(l)) for l in b.leaves] + [0])
        ha_cands = [tuple(500 + i for i in range(n)) for n in range(maxcap + 2)] if ca else [()]
        hk_names = sorted(set(n for l in b.leaves for n, k, d in universe.spec_view(l) if k in (POK, KWO)))[:5]
        hk_cands = [dict((n, 'h_' + n) for n in ks) for r in range(len(hk_names) + 1)
                    for ks in itertools.combinations(hk_names, r)] if ck else [{}]
        written = set(n for c in prog['calls'] for n in c['names'])
        oview = universe.spec_view(b.outer)
        if deco in ('kwoargs', 'autokwoargs'):
            oview = universe.sig_view(P)        # what the modifier advertises for the def itself
        okp = cpbind.kwpassable(oview)
        ocap = cpbind.poscap(oview)
        ek_names = [n for n in hk_names if n not in okp][:4]
        executed = reached = inconclusive = 0
        BUDGET = 600
        alive = {}
        for sel in range(b.nsel()):
            calls = [prog['calls'][sel]] if b.nsel() > 1 else prog['calls']
            if any(broken_star(b, prog['calls'].index(c)) for c in calls):
                stats.cls('branch/broken (a star rebound to something that cannot be unpacked)')
                continue
            if any(dead_call(b, c) for c in calls):
                stats.cls('branch/dead (the written call can never bind to its callee)')
                continue
            stats.cls('branch/live')
            # caller content that reaches a callee through a star sigtools must treat as unknown
            # is part of the existential: shapes leave that star empty, and the search may add to it
            flows = content_flows(b, calls)
            ex_pos = list(range(maxcap + 2)) if flows['args'] else [0]
            ex_kw = [ks for r in range(len(ek_names) + 1) for ks in itertools.combinations(ek_names, r)] if flows['kwargs'] else [()]
            nexec = 0
            for npos in range(cap + 2):
                if flows['args'] and npos > ocap:
                    continue
                for r in range(MAXKW + 1):
                    for K in itertools.combinations(pool, r):
                        if not rb.accepts(npos, K):
                            continue
                        if not all((k in kp) or (k not in alln) for k in K):
                            continue
                        if written.intersection(K):
                            continue        # the body passes this name itself (C03: shapes are disjoint from names)
                        if flows['kwargs'] and not all(k in okp for k in K):
                            continue
                        if nexec >= executed_cap:
                            break
                        ok = False
                        last = None
                        tried = 0
                        exhausted = True
                        for e, ek, ha, hk in itertools.product(ex_pos, ex_kw, ha_cands, hk_cands):
                            if tried >= BUDGET:
                                exhausted = False
                                break
                            if set(ek) & set(K):
                                continue
                            tried += 1
                            out, info = b.execute(npos + e, tuple(K) + tuple(ek), sel, ha, hk)
                            executed += 1
                            nexec += 1
                            if out != 'TypeError':
                                ok = True
                                if out == 'ok' and info:
                                    reached += 1
                                break
                            last = info
                        if not ok and (not exhausted or flows['args'] or flows['kwargs']):
                            # caller content reaches the callee through a star the program taints or
                            # combines: the run-time value is not the harness's to choose (own parameter
                            # names cannot travel in **kwargs, ...); there only clause (B) is demanded
                            inconclusive += 1
                            continue
                        if not ok:
                            what = 'modes=%s taints=%s' % ('+'.join(modes), ','.join(t['name'] for t in prog['taints'] if t['where'] == 'before') or '-')
                            hidden = ca or ck or flows['args'] or flows['kwargs']
                            if hidden:
                                # the hidden values are one tuple / mapping per execution: calls made one after the other may
                                # need values that exclude each other (one wants two items, the next one) -- then no execution
                                # of this branch succeeds whatever is passed, the function honours no call at all and the
                                # reported signature is not held to account (same rule as for dead branches)
                                if sel not in alive:
                                    alive[sel] = branch_alive(b, sel, oview, pool, ha_cands, hk_cands)
                                if not alive[sel]:
                                    stats.cls('branch/dead under every hidden value (sequential calls with incompatible needs)')
                                    break
                            bucket = 'C05/unsound/%s/%s/%s' % (
                                'unresolvable' if route in progs.UNRESOLVABLE else route,
                                'hidden' if hidden else 'plain', 'tainted' if tainted else 'untainted')
                            if len(b.truth) > 1 and colliding_on_branch(b, calls, K):
                                bucket = 'C05/unsound/multi-call/keyword-colliding-on-one-branch'
                            elif npos and K and calls_role_inconsistent(b):
                                bucket = 'C05/unsound/role-inconsistent-calls/mixed-shape'
                            stats.fail(bucket, dict(case, shape=[npos, list(K)], sel=sel),
                                       'sigtools.signature(TARGET) = %s (plain: %s) accepts the non-colliding call with %d positionals and keywords %s, '
                                       'but executing it (branch %d%s) raises TypeError: %s [%s]\n%s' % (
                                           R, P, npos, list(K), sel, ', every hidden value tried (%d)' % tried if hidden else '', last, what, b.src))
                            return
        if inconclusive:
            stats.cls('no-witness-inconclusive (budget exhausted or caller-content existential)', inconclusive)
        stats.extra['executions'] += executed
        stats.cls('discovered/%s' % ('reached-leaf' if reached else 'no-leaf-reached'))
        if reached or special:
            stats.nontriv(progs.skeleton(prog))
            stats.sample('discovered/' + route + ('/special' if special else ''),
                         {'source': b.src.split('def OTHER')[1].split('\n', 2)[2], 'reported': str(R), 'plain': str(P), 'executions': executed})
    finally:
        b.close()


def shard_hyp(arg):
    seed, n, kw = arg
    st = Stats()
    hyp_search(progs.st_program(**kw), check_prog, st, n, seed)
    return st


def run(ctx):
    total = Stats()
    n = ctx.pick(4800, 64000)
    tasks = [(s, n // 32, {}) for s in ctx.shard_seeds(16)]
    # focused sub-grammars: the untainted well-resolved core, and taints only
    tasks += [(s + 500, n // 64, {'routes': ('global', 'closure', 'attr', 'self_method', 'param'), 'allow_taints': False})
              for s in ctx.shard_seeds(16)]
    tasks += [(s + 700, n // 64, {'routes': ('global', 'self_attr', 'partial_inner'), 'max_calls': 1})
              for s in ctx.shard_seeds(16)]
    # nested scopes and default-value positions (calls the walker defers or could overlook)
    tasks += [(s + 900, n // 64, {'ctxs': progs.NESTED_CTXS + ('lambda_default', 'return'), 'allow_taints': False,
                                  'routes': ('global', 'closure', 'param', 'self_method', 'attr')})
              for s in ctx.shard_seeds(16)]
    # nested scopes with taint statements between the definition and the call of the nested function
    tasks += [(s + 1100, n // 64, {'ctxs': progs.NESTED_CTXS, 'routes': ('global', 'closure', 'self_method', 'attr'), 'max_calls': 2})
              for s in ctx.shard_seeds(16)]
    # several calls through one generic helper that is handed the callee (positionally or by keyword)
    tasks += [(s + 1300, n // 64, {'routes': ('via_helper', 'via_helper_kw'), 'allow_taints': False, 'ctxs': ('return', 'assign', 'if', 'nested')})
              for s in ctx.shard_seeds(16)]
    total.merge(ctx.pmap(shard_hyp, tasks))
    return total


def replay(case, stats):
    check_prog(case['prog'], stats)
