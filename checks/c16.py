"""C16 -- retrieval and algebra do not modify what they inspect, even when they fail.

Part A (inputs): deep snapshot of every input signature (parameter objects, their own sources /
  source_depths, the sources map, every list and the '+depths' map, container identities) before each
  merge / embed / mask / forwards / sort_params / apply_params call; afterwards the snapshot is
  unchanged and no list or dict inside result.sources *is* an object inside an input's sources.
Part B (crash points): for every scenario instance, count the calls that cross from sigtools code
  into outside code during one retrieval; then for k = 1..N re-create the scenario, raise an exception
  at the k-th crossing, and compare before/after snapshots of every object of the scenario (attribute
  names and value identities, through __wrapped__/__signature__/__dict__) and require the recursion
  guard behind as_forged to be empty -- whether the retrieval returned or raised."""
import inspect

from vlib import cpbind, faults, realfn, scenarios, universe
from vlib.framework import Stats, hyp_search
from vlib.universe import Par, PO, POK, KWO
from checks import c15

LEVEL = 'fault_enumeration'
RULE = ('Part B: scenario instances (20 templates: functools.wraps chains, __signature__ carriers, forwards_to_* attribute/emulate/'
        'method/super, modifiers, wrappers.decorator/wrapper_decorator, user forger, __getattr__/property objects, Combination, '
        'partial) x inner/outer parameter lists x retrieval action (sigtools.signature, auto=False, inspect.signature) x exception '
        'type x EVERY crossing index k (thorough: all; quick: all k for a stride of instances). Part A: the operation cases of C15 '
        '(pairs/triples/flags) with deep before/after snapshots and aliasing checks. Non-trivial = an injected fault actually fired '
        '(distinct by scenario, target, action, k, exception type) or an algebra call ran on inputs that were snapshotted.')
ASSUMPTIONS = ['fault model: an exception raised on entry of a Python-level call that crosses from sigtools into outside code; '
               'asynchronous exceptions between two statements of sigtools are not part of it (as the property states)',
               'C-level builtin calls on sigtools-owned containers are not crossings']

EXC_TYPES = [faults.Injected, faults.InjectedBase, AttributeError, ValueError, TypeError, OSError, KeyError]


# ------------------------------------------------------------------------------ part A

def sig_snapshot(sig):
    ps = tuple(sig.parameters.values())
    src = sig.sources
    return (
        id(sig.parameters) if False else None,
        tuple((id(p), p.name, int(p.kind), repr(p.default), repr(p.annotation), id(p.sources), tuple(id(f) for f in p.sources),
               id(p.source_depths), tuple(sorted((id(f), d) for f, d in p.source_depths.items())), id(p.upgraded_annotation))
              for p in ps),
        id(src),
        tuple(sorted((k, id(v), tuple(id(f) for f in v)) for k, v in src.items() if k != '+depths')),
        id(src.get('+depths')),
        tuple(sorted((id(f), d) for f, d in src.get('+depths', {}).items())),
        repr(sig.return_annotation), id(sig.upgraded_return_annotation),
    )


def containers(sig):
    """Identities of every provenance container of a signature: the map, the lists and depth map in it, and the per-parameter
    lists / depth maps (empty hand-outs excluded: parameters without provenance may share an empty default)."""
    src = sig.sources
    ids = {id(src)}
    for v in src.values():
        ids.add(id(v))
    for p in sig.parameters.values():
        for c in (getattr(p, 'sources', None), getattr(p, 'source_depths', None)):
            if c:
                ids.add(id(c))
    return ids


def check_algebra(op, specs, args, stats, enum=False):
    from sigtools import signatures
    stats.case()
    sigs = [realfn.sig_of(s, 'f%d' % i) for i, s in enumerate(specs)]
    before = [sig_snapshot(s) for s in sigs]
    if op == 'sort_apply':
        try:
            sp = signatures.sort_params(sigs[0], sources=True)
            # the classified pieces handed to apply_params are the caller's too: used twice, unchanged
            snap = lambda parts: [list(x) if isinstance(x, list) else dict(x) if isinstance(x, dict) else x for x in parts]
            kept = snap(sp)
            r = signatures.apply_params(sigs[0], *sp)
            if snap(sp) != kept:
                stats.fail('C16/A/sort_apply/arguments-modified', {'part': 'A', 'op': op, 'specs': [list(map(list, x)) for x in specs], 'args': args},
                           'apply_params(sig, *sort_params(sig)) for (%s) changed the lists/dicts it was given: %r -> %r' % (
                               universe.spec_text(specs[0]), [str(x)[:60] for x in kept[:2]], [str(x)[:60] for x in snap(sp)[:2]]))
            rr = signatures.apply_params(sigs[0], *sp)
            if [(q.name, int(q.kind)) for q in rr.parameters.values()] != [(q.name, int(q.kind)) for q in r.parameters.values()]:
                stats.fail('C16/A/sort_apply/second-use-differs', {'part': 'A', 'op': op, 'specs': [list(map(list, x)) for x in specs], 'args': args},
                           'using one sort_params((%s)) result twice gives %s then %s' % (universe.spec_text(specs[0]), r, rr))
            sp2 = signatures.sort_params(sigs[0])
            r2 = signatures.apply_params(sigs[0], *sp2)
            # ... also when no provenance is handed over: the result's map is its own
            if containers(r2) & containers(sigs[0]):
                stats.fail('C16/A/sort_apply/aliasing-without-sources', {'part': 'A', 'op': op, 'specs': [list(map(list, x)) for x in specs], 'args': args},
                           'apply_params(sig, *sort_params(sig)) for (%s): the result shares its provenance map (or a list in it) with sig' % universe.spec_text(specs[0]))
            exc = None
        except Exception as e:
            r, exc = None, e
    else:
        r, exc = c15.apply_op(op, sigs, args)
    after = [sig_snapshot(s) for s in sigs]
    case = {'part': 'A', 'op': op, 'specs': [list(map(list, s)) for s in specs], 'args': args}
    desc = c15.describe(op, specs, args)
    stats.cls('A/%s/%s' % (op, 'raised' if exc is not None else 'returned'))
    if enum:
        stats.nontriv_enum()
    else:
        stats.nontriv(('A', op, [universe.spec_text(s) for s in specs], args))
    if before != after:
        which = [i for i in range(len(sigs)) if before[i] != after[i]]
        stats.fail('C16/A/%s/input-modified' % op, case, '%s modified its input(s) %s (%s)' % (
            desc, which, 'raised %s' % type(exc).__name__ if exc is not None else 'returned %s' % r))
        realfn._sig_cache.clear()
    if r is not None:
        mine = containers(r)
        for i, s in enumerate(sigs):
            shared = mine & containers(s)
            if shared:
                what = 'the sources map itself' if id(s.sources) in shared else 'a list / the depth map inside sources'
                stats.fail('C16/A/%s/aliasing' % op, case, '%s -> %s shares %s with input %d' % (desc, r, what, i))
                break
        stats.sample('A/%s' % op, {'call': desc, 'result': str(r)})
        if op in ('merge', 'embed', 'forwards') and len(r.sources.get('+depths', {})) >= 2:
            follow_ups(r, sigs, case, desc, stats)


def follow_ups(r, sigs, case, desc, stats):
    """The result of one operation as the input of the next: it carries provenance from several callables at several depths,
    and the second operation may take away everything one of them contributed."""
    from sigtools import signatures
    ps = list(r.parameters.values())
    npos = sum(1 for q in ps if q.kind in (PO, POK))
    kwn = [q.name for q in ps if q.kind in (POK, KWO)]
    ops = [('mask(r, %d)' % k, lambda k=k: signatures.mask(r, k)) for k in range(npos + 1)]
    ops += [('mask(r, 0, %r)' % x, lambda x=x: signatures.mask(r, 0, x)) for x in kwn[:3]]
    if len(kwn) >= 2:
        ops.append(('mask(r, 0, %s)' % ', '.join(map(repr, kwn)), lambda: signatures.mask(r, 0, *kwn)))
    ops.append(('mask(r, 0, hide_args=True, hide_kwargs=True)', lambda: signatures.mask(r, 0, hide_args=True, hide_kwargs=True)))
    ops.append(('merge(r, input 0)', lambda: signatures.merge(r, sigs[0])))
    ops.append(('embed(r, last input)', lambda: signatures.embed(r, sigs[-1])))
    ops.append(('forwards(r, last input, 1)', lambda: signatures.forwards(r, sigs[-1], 1)))
    ops.append(('apply_params(r, *sort_params(r))', lambda: signatures.apply_params(r, *signatures.sort_params(r))))
    for label, fn in ops:
        stats.case()
        before = sig_snapshot(r)
        try:
            r2 = fn()
        except ValueError:
            r2 = None
        stats.cls('A/second operation on a result/%s' % ('raised' if r2 is None else 'returned'))
        if sig_snapshot(r) != before:
            stats.fail('C16/A/second-operation/input-modified', dict(case, second=label), 'r = %s -> %s (depths %r); then %s modified r: depths now %r' % (
                desc, r, sorted(before[5]), label, sorted(sig_snapshot(r)[5])))
            return
        if r2 is not None and containers(r2) & containers(r):
            stats.fail('C16/A/second-operation/aliasing', dict(case, second=label), 'r = %s -> %s; %s -> %s shares a provenance container with r' % (desc, r, label, r2))
            return


def shard_algebra(arg):
    start, step, count = arg
    c15._init()
    st = Stats()
    U = c15._U2
    n = len(U)
    x = start
    for c in range(count):
        x = (x + step) % (n * n)
        i, j = divmod(x, n)
        a, b = U[i], U[j]
        y = (x * 2654435761 + c) & 0xffffffff
        which = y % 6
        y >>= 3
        if which == 0:
            check_algebra('merge', (a, b), {}, st)
        elif which == 1:
            check_algebra('merge', (a, b, U[(x // 7) % n]), {}, st)
        elif which == 2:
            check_algebra('embed', (a, b), {'use_varargs': bool(y & 1), 'use_varkwargs': bool(y & 2)}, st)
        elif which == 3:
            cand = [p.name for p in a] + ['q']
            names = [cand[(y >> 4) % len(cand)]][: (y >> 2) % 2] + [cand[(y >> 8) % len(cand)]][: (y >> 3) % 2]
            fl = {k: bool((y >> (12 + b_)) & 1) for b_, k in enumerate(c15.MASK_FLAGS)}
            check_algebra('mask', (a,), {'n': (y >> 16) % (len(a) + 2), 'names': names, 'flags': fl}, st)
        elif which == 4:
            cand = [p.name for p in b] + ['q']
            names = [cand[(y >> 4) % len(cand)]][: (y >> 2) % 2]
            fl = {k: bool((y >> (12 + b_)) & 1) for b_, k in enumerate(c15.FWD_FLAGS)}
            check_algebra('forwards', (a, b), {'n': (y >> 18) % (len(b) + 2), 'names': names, 'flags': fl}, st)
        else:
            check_algebra('sort_apply', (a,), {}, st)
    return st


def check_hyp(case, stats):
    op, specs, args, down = case
    check_algebra(op, specs, args, stats)


def shard_hyp(arg):
    seed, n = arg
    st = Stats()
    hyp_search(c15.st_case(), check_hyp, st, n, seed)
    return st


# ------------------------------------------------------------------------------ part B

ACTIONS = ('sigtools.signature', 'sigtools.signature(auto=False)', 'inspect.signature', 'signatures.signature')


def do_action(action, obj):
    import sigtools
    from sigtools import signatures
    if action == 'sigtools.signature':
        return sigtools.signature(obj)
    if action == 'sigtools.signature(auto=False)':
        return sigtools.signature(obj, auto=False)
    if action == 'inspect.signature':
        return inspect.signature(obj)
    return signatures.signature(obj)


def result_text(action, obj):
    try:
        return str(do_action(action, obj))
    except BaseException as e:
        return 'raised ' + type(e).__name__


def guard_set():
    """The recursion guard behind as_forged when it is reachable as a container (its observable effect is
    checked independently by repeating the retrieval)."""
    from sigtools import specifiers
    g = getattr(specifiers.as_forged, 'currently_computing', None)
    return g if isinstance(g, set) else set()


def run_target(name, inner, outer, texpr, action, exc_types, per_signature, stats, only=None):
    """Enumerate the crossings of one (scenario instance, target, action)."""
    guard_set().clear()
    g, targets, src = scenarios.build(name, inner, outer)
    try:
        obj = scenarios.resolve(g, texpr)
        log, base_outcome = faults.list_crossings(lambda: do_action(action, obj))
        base_text = result_text(action, obj)
    finally:
        realfn.unload(g)
    stats.extra['crossings_total'] += len(log)
    stats.extra['distinct_crossing_signatures'] += len(set(log))
    stats.cls('B/baseline/%s' % ('returned' if base_outcome == 'returned' else 'raised'))
    ks = faults.select_ks(log, per_signature)
    stats.extra['crossings_injected_per_exception_type'] += len(ks)
    for exc_type in exc_types:
        for k in ks:
            one_fault(name, inner, outer, src, texpr, action, exc_type, k, stats, base_text)


def one_fault(name, inner, outer, src, texpr, action, exc_type, k, stats, base_text=None):
    stats.case()
    guard_set().clear()
    g, _, _ = scenarios.build(name, inner, outer)
    try:
        obj = scenarios.resolve(g, texpr)
        roots = scenarios.roots(g) + [obj]
        before = faults.snapshot(roots)

        def probe():
            return bool(faults.diff_snapshots(before, faults.snapshot(roots))), bool(guard_set())
        inj, outcome = faults.run_with_fault(lambda: do_action(action, obj), k, exc_type, probe)
        after = faults.snapshot(roots)
        guard_left = len(guard_set())
        # observable form of "the recursion guard is empty / nothing is left half-done": the same retrieval,
        # repeated without a fault, gives what it gives on a pristine object
        post_text = result_text(action, obj) if base_text is not None else None
        guard_set().clear()
    finally:
        realfn.unload(g)
    if inj.where is None:
        stats.cls('B/not-reached')   # crossing count varies (caches warmed by the counting run)
        return
    in_window = inj.probe_result and (inj.probe_result[0] or inj.probe_result[1])
    stats.cls('B/fired/%s/%s' % ('in-window' if in_window else 'plain', 'returned' if outcome == 'returned' else 'raised'))
    stats.nontriv(('B', name, inner, outer, texpr, action, exc_type.__name__, k))
    case = {'part': 'B', 'scenario': name, 'inner': inner, 'outer': outer, 'target': texpr, 'action': action,
            'exception': exc_type.__name__, 'k': k, 'source': src}
    if in_window or k == 1:
        stats.sample('B/%s' % name, {kk: case[kk] for kk in ('scenario', 'target', 'action', 'exception', 'k')} |
                     {'fault_at': inj.where, 'outcome': outcome, 'attribute_removed_at_injection': bool(inj.probe_result and inj.probe_result[0]),
                      'guard_held_at_injection': bool(inj.probe_result and inj.probe_result[1])})
    d = faults.diff_snapshots(before, after)
    if d:
        stats.fail('C16/B/attributes-changed/%s' % name, case,
                   '%s(%s) with %s injected at crossing %d (%s) %s; afterwards: %s' % (
                       action, texpr, exc_type.__name__, k, inj.where, outcome, '; '.join(d)[:600]))
    if post_text != base_text:
        stats.fail('C16/B/later-retrieval-differs/%s' % name, case,
                   '%s(%s) with %s injected at crossing %d (%s) %s; repeating the retrieval afterwards gives %s instead of %s' % (
                       action, texpr, exc_type.__name__, k, inj.where, outcome, post_text, base_text))
    if guard_left:
        stats.fail('C16/B/guard-not-empty/%s' % name, case,
                   '%s(%s) with %s injected at crossing %d (%s) %s; as_forged recursion guard still holds %d object(s)' % (
                       action, texpr, exc_type.__name__, k, inj.where, outcome, guard_left))


def shard_faults(arg):
    name, inner, outer, texpr, action, exc_names, per_signature = arg
    st = Stats()
    excs = [e for e in EXC_TYPES if e.__name__ in exc_names]
    run_target(name, inner, outer, texpr, action, excs, per_signature, st)
    return st


def shard_handbuilt(arg):
    """Part C: objects the caller built by hand (UpgradedParameter / UpgradedSignature without provenance) are not touched by
    retrievals and operations on *other* objects -- nothing is shared behind the scenes."""
    import functools
    import inspect
    import sigtools
    from sigtools import signatures
    st = Stats()
    P = signatures.UpgradedParameter
    mine = [P('zz1', inspect.Parameter.POSITIONAL_OR_KEYWORD), P('zz2', inspect.Parameter.KEYWORD_ONLY, default=1)]
    mysig = signatures.UpgradedSignature(mine)

    def view():
        return ([(p.name, list(p.sources), dict(p.source_depths)) for p in mine],
                [(p.name, list(p.sources), dict(p.source_depths)) for p in mysig.parameters.values()], dict(mysig.sources))
    before = view()
    srcs = ['def g(**kwargs):\n    return 0\n', 'def g(a, *args, **kwargs):\n    return 0\n', 'def g(a, b=1, *, c=2, **k):\n    return 0\n']
    for src in srcs:
        g = realfn.load(src)
        try:
            fn = g['g']
            targets = [functools.partial(fn, extra=1), functools.partial(fn, extra=1, more=2), fn]
            if 'a' in inspect.signature(fn).parameters:
                targets += [functools.partial(fn, 1), functools.partial(fn, a=1)]
            for t in targets:
                for getter in (sigtools.signature, signatures.signature):
                    st.case()
                    try:
                        r = getter(t)
                        for op in (lambda: signatures.merge(r, r), lambda: signatures.mask(r, 0), lambda: signatures.embed(signatures.signature(fn), r)):
                            try:
                                op()
                            except ValueError:
                                pass
                    except ValueError:
                        pass
                    now = view()
                    if now != before:
                        st.fail('C16/C/hand-built-object-changed', {'part': 'C', 'source': src},
                                'after %s(%r) for\n%s: a hand-built parameter / signature that took no part in it changed from %r to %r' % (
                                    getter.__module__, t, src, before, now))
                        return st
                    st.nontriv(('C', src, repr(type(t)), getter.__module__))
        finally:
            realfn.unload(g)
    return st


def tasks(insts, exc_names, per_signature):
    out = []
    for name, inner, outer in insts:
        for texpr in scenarios._by_name[name]['targets']:
            for action in ACTIONS:
                out.append((name, inner, outer, texpr, action, exc_names, per_signature))
    return out


def run(ctx):
    total = Stats()
    insts = scenarios.instances()
    by = {}
    for t in insts:
        by.setdefault(t[0], []).append(t)
    chosen = []
    for i, name in enumerate(sorted(by)):
        lst = by[name]
        chosen.append(lst[(ctx.seed + i) % len(lst)])
        other = lst[(ctx.seed * 7 + i + 3) % len(lst)]
        if other not in chosen:
            chosen.append(other)
    allx = [e.__name__ for e in EXC_TYPES]
    if ctx.quick:
        # two instances per template; one injection per distinct crossing signature; 3 exception types
        work = tasks(chosen, ['Injected', 'InjectedBase', 'AttributeError', 'ValueError', 'OSError'], 1)
    else:
        # every crossing index on the chosen instances (Injected), and the first 2 occurrences of every
        # distinct crossing signature on ALL instances with all exception types
        work = tasks(chosen, ['Injected'], None) + tasks(insts, allx, 2)
        total.exhaustive['crash points: every crossing index k of every (target, action) of %d scenario instances' % len(chosen)] = len(chosen)
    total.merge(ctx.pmap(shard_faults, work))
    total.merge(ctx.pmap(shard_handbuilt, [0]))
    na = ctx.pick(60000, 1200000)
    total.merge(ctx.pmap(shard_algebra, [(ctx.seed * 7919 + s * 104729, 1000003 + 2 * s, na // 32) for s in range(32)]))
    nh = ctx.pick(2400, 32000)
    total.merge(ctx.pmap(shard_hyp, [(s, nh // 16) for s in ctx.shard_seeds(16)]))
    return total


def replay(case, stats):
    if case.get('part') == 'C':
        stats.merge(shard_handbuilt(0))
        return
    if case.get('part') == 'B':
        exc = next(e for e in EXC_TYPES if e.__name__ == case['exception'])
        one_fault(case['scenario'], case['inner'], case['outer'], case.get('source', ''), case['target'], case['action'], exc, case['k'], stats)
    else:
        specs = tuple(tuple(Par(*p) for p in s) for s in case['specs'])
        check_algebra(case['op'], specs, case['args'], stats)
