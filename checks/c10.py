"""C10 -- defaults, annotations, kinds and order of combined parameters follow the stated rules.

Reference rules ("stands for" = same name; inputs are constructed name-aligned so this is unambiguous,
plus a renamed-positional family where it means same position):
  merge   p optional => every contributor optional; default = the contributors' common default, None when
          they differ; annotation = the single value all annotated contributors share, else none;
          kind in {contributor kinds} + the more restrictive forms of positional-or-keyword;
          each input's positional parameters keep their relative order.
  embed / forwards   every result parameter has one contributor; annotation and kind rule as above;
          within each kind group all outer parameters precede all inner ones; a default is dropped only
          for outer positional parameters followed by a required inner positional parameter;
          partial=True makes every surviving inner parameter default to None.
  mask    surviving parameters keep default and annotation; kind only positional-or-keyword -> keyword-only.
  partial bound keywords appear keyword-only with `default is` the bound object."""
import functools
import itertools

from vlib import cpbind, realfn, universe
from vlib.framework import Stats, hyp_search
from vlib.universe import Par, PO, POK, VP, KWO, VK

LEVEL = 'exploration'
RULE = ('E1: Hypothesis tuples (n=2,3) of name-aligned signatures built from a common spine (<=5 named parameters) with '
        'per-(input, parameter) defaults drawn from {absent, 1, 2, None, a fresh-equal tuple} and annotations from {absent, A1, A2}; '
        '(outer, inner) pairs with disjoint names for embed / forwards (all flags, n, names); mask cases; E2: every aligned '
        'ordered pair of the <=2-named universe with two deterministic default/annotation taggings. Non-trivial = some result '
        'parameter has >=2 contributors whose default or annotation state differs (merge), or an outer default / inner parameter '
        'is involved (embed/forwards); distinct by the full case.')
ASSUMPTIONS = ['default and annotation values are compared with == (and `is` for partial)']

G = {'A1': 'ann-1', 'A2': 'ann-2', 'T': (1, 2)}
DEFAULTS = [None, '1', '2', 'None', '(1, 2)', 'T']
ANNS = [None, 'A1', 'A2']
NODEF = ('NODEFAULT',)
NOANN = ('NOANN',)


def build_sig(spec, name, carrier='func'):
    """Signature of a real callable with the spec's default / annotation expressions evaluated in G: a function, or
    -- carriers without a code object of their own -- a callable instance or a class (signature of __call__ / __init__
    without self)."""
    from sigtools import signatures
    key = (spec, name, carrier)
    r = _built.get(key)
    if r is None:
        if len(_built) > 20000:
            _built.clear()
        flags, glob = 0, G
        if carrier in ('func', 'future', 'future-swapped'):
            src = 'def %s(%s):\n    return 0\n' % (name, universe.spec_text(spec))
            if carrier != 'func':
                # compiled with the future flag; 'swapped': in globals where the two spellings denote each other's value
                import __future__
                flags = __future__.annotations.compiler_flag
                glob = G if carrier == 'future' else dict(G, A1=G['A2'], A2=G['A1'])
        else:
            sp = (Par('self', PO if any(p.kind == PO for p in spec) else POK),) + tuple(spec)
            meth = '__call__' if carrier == 'instance' else '__init__'
            src = 'class _K(object):\n    def %s(%s):\n        return None\n%s = _K%s\n' % (
                meth, universe.spec_text(sp), name, '()' if carrier == 'instance' else '')
        g = realfn.load(src, dict(glob), register=False, flags=flags)
        r = _built[key] = signatures.signature(g[name])
    return r


def carriers_for(specs):
    """Deterministic mix: most inputs are functions, some callable instances or classes."""
    from vlib.framework import stable_hash
    if any(p.name == 'self' for s in specs for p in s):
        return ['func'] * len(specs)
    cars = [('func', 'func', 'func', 'instance', 'class', 'future', 'future-swapped', 'func')[stable_hash([universe.spec_text(s) for s in specs] + [i]) % 8]
            for i in range(len(specs))]
    if any(c.startswith('future') for c in cars):
        # carriers without a code object have no upgraded annotation (finding F52, recorded under C11): next to a postponed
        # annotation only the raw values could be compared; that combination is excluded here, by construction
        cars = ['func' if c in ('instance', 'class') else c for c in cars]
    return cars


_built = {}


def _unused():
    pass


def ann_value(p):
    """What the annotation denotes where it was written (postponed annotations are spellings); the raw annotation for
    parameters without an upgraded one (carriers without a code object)."""
    if p.annotation is p.empty:
        return NOANN
    up = getattr(p, 'upgraded_annotation', None)
    if up is not None:
        v = up.source_value()
        if v is not p.empty:
            return v
    return p.annotation


def check_raw_vs_upgraded(r, stats, case, desc):
    """A parameter without annotation carries no upgraded one either (evaluated() would bring it back)."""
    for p in r.parameters.values():
        up = getattr(p, 'upgraded_annotation', None)
        if p.annotation is p.empty and up is not None and up.source_value() is not p.empty:
            stats.fail('C10/annotation/dropped-but-upgraded-kept', case,
                       '%s -> %s: parameter %s has no annotation but its upgraded annotation still denotes %r (evaluated() gives %s)' % (
                           desc, r, p.name, up.source_value(), r.evaluated()))
            return


def pinfo(p):
    return (p.name, int(p.kind), NODEF if p.default is p.empty else p.default, ann_value(p))


def kind_ok(result_kind, contrib_kinds):
    allowed = set(contrib_kinds)
    if POK in contrib_kinds:
        allowed |= {PO, KWO}
    return result_kind in allowed


def expected_default(defs):
    """defs: list of contributor defaults (NODEF if required)."""
    if any(d == NODEF for d in defs):
        return [NODEF]
    if all(d == defs[0] for d in defs):
        return [defs[0]]
    return [None]


def expected_annotation(anns):
    vals = [a for a in anns if a != NOANN]
    if not vals:
        return NOANN
    if all(v == vals[0] for v in vals):
        return vals[0]
    return NOANN


def check_merge(specs, stats, enum=False):
    from sigtools import signatures
    stats.case()
    cars = carriers_for(specs)
    sigs = [build_sig(s, 'f%d' % i, cars[i]) for i, s in enumerate(specs)]
    try:
        r = signatures.merge(*sigs)
    except ValueError:
        stats.cls('merge/raised')
        return
    stats.cls('merge/n=%d' % len(specs))
    if any(c in ('instance', 'class') for c in cars):
        stats.cls('merge/with-codeless-carrier')
    if any(c.startswith('future') for c in cars):
        stats.cls('merge/with-postponed-carrier')
    case = {'op': 'merge', 'specs': [list(map(list, s)) for s in specs]}
    desc = 'merge(%s)' % ', '.join('%s(%s)' % ('' if c == 'func' else c + ' ', universe.spec_text(s)) for s, c in zip(specs, cars))
    check_raw_vs_upgraded(r, stats, case, desc)
    nontriv = False
    for p in r.parameters.values():
        name, kind, default, ann = pinfo(p)
        if kind in (VP, VK):
            contrib = [pinfo(q) for s in sigs for q in s.parameters.values() if int(q.kind) == kind]
        else:
            contrib = [pinfo(q) for s in sigs for q in s.parameters.values() if q.name == name and int(q.kind) not in (VP, VK)]
        if not contrib:
            stats.fail('C10/merge/no-contributor', case, '%s -> %s: parameter %s has no same-named contributor' % (desc, r, name))
            continue
        defs = [c[2] for c in contrib]
        anns = [c[3] for c in contrib]
        if len(contrib) >= 2 and (len(set(map(repr, defs))) > 1 or len(set(map(repr, anns))) > 1):
            nontriv = True
        if kind not in (VP, VK):
            if default != NODEF and any(d == NODEF for d in defs):
                stats.fail('C10/merge/optional-but-contributor-required', case, '%s -> %s: %s is optional but a contributor is required' % (desc, r, name))
            elif default != NODEF:
                exp = expected_default(defs)[0]
                if not (default == exp and type(default) is type(exp)):
                    n = len(contrib)
                    stats.fail('C10/merge/default-value/%s' % ('n=2' if len(specs) == 2 else 'n>=3'), case, '%s -> %s: default of %s is %r, contributors have %r => expected %r' % (desc, r, name, default, defs, exp))
            if not kind_ok(kind, [c[1] for c in contrib]):
                stats.fail('C10/merge/kind', case, '%s -> %s: kind of %s is %d, contributors have %r' % (desc, r, name, kind, [c[1] for c in contrib]))
        expa = expected_annotation(anns)
        if kind in (VP, VK):
            # which input star parameters a result star "stands for" is not pinned down by the property (an input's
            # *args that absorbed a named parameter is not counted by merge): only forbid invented annotations
            if ann != NOANN and ann not in anns:
                stats.fail('C10/merge/star-annotation-invented', case, '%s -> %s: annotation of %s is %r, contributors have %r' % (desc, r, name, ann, anns))
        elif ann != expa:
            annotated = [a for a in anns if a != NOANN]
            # known finding F8: the left fold forgets an earlier conflict when later contributors are annotated
            forgets = len(specs) >= 3 and len(annotated) >= 3 and expa == NOANN and ann == annotated[-1]
            stats.fail('C10/merge/annotation/%s' % ('fold-forgets-conflict' if forgets else 'n=%d' % len(specs)), case,
                       '%s -> %s: annotation of %s is %r, contributors have %r => expected %r' % (desc, r, name, ann, anns, expa))
    # positional order
    rpos = [p.name for p in r.parameters.values() if int(p.kind) in (PO, POK)]
    for i, s in enumerate(sigs):
        mine = [q.name for q in s.parameters.values() if int(q.kind) in (PO, POK) and q.name in rpos]
        if mine != [n for n in rpos if n in mine]:
            stats.fail('C10/merge/positional-order', case, '%s -> %s: positional parameters of input %d appear out of order' % (desc, r, i))
    if nontriv:
        stats.nontriv_enum() if enum else stats.nontriv(('merge', [universe.spec_text(s) for s in specs]))
        stats.sample('merge', {'call': desc, 'result': str(r)})


def check_renamed(specs, stats):
    """Positional-only parameters at the same position under different names: same-position rule."""
    from sigtools import signatures
    stats.case()
    sigs = [build_sig(s, 'f%d' % i) for i, s in enumerate(specs)]
    try:
        r = signatures.merge(*sigs)
    except ValueError:
        stats.cls('renamed/raised')
        return
    stats.cls('renamed')
    case = {'op': 'renamed', 'specs': [list(map(list, s)) for s in specs]}
    desc = 'merge(%s)' % ', '.join('(%s)' % universe.spec_text(s) for s in specs)
    rpos = [pinfo(p) for p in r.parameters.values() if int(p.kind) in (PO, POK)]
    cols = [[pinfo(q) for q in s.parameters.values() if int(q.kind) in (PO, POK)] for s in sigs]
    for i, (name, kind, default, ann) in enumerate(rpos):
        contrib = [c[i] for c in cols if i < len(c)]
        defs = [c[2] for c in contrib]
        anns = [c[3] for c in contrib]
        if default != NODEF and any(d == NODEF for d in defs):
            stats.fail('C10/renamed/optional-but-contributor-required', case, '%s -> %s: position %d' % (desc, r, i))
        elif default != NODEF and len(contrib) <= 2:
            exp = expected_default(defs)[0]
            if not (default == exp):
                stats.fail('C10/renamed/default-value', case, '%s -> %s: default at position %d is %r, contributors %r' % (desc, r, i, default, defs))
        if len(contrib) <= 2 and ann != expected_annotation(anns):
            stats.fail('C10/renamed/annotation', case, '%s -> %s: annotation at position %d is %r, contributors %r' % (desc, r, i, ann, anns))
    if len(rpos) and any(len(set(x[0] for x in col)) > 0 for col in cols):
        stats.nontriv(('renamed', [universe.spec_text(s) for s in specs]))
        stats.sample('renamed', {'call': desc, 'result': str(r)})


def check_embed(so, si, args, stats, op='embed'):
    from sigtools import signatures
    stats.case()
    outer, inner = build_sig(so, 'outer'), build_sig(si, 'inner')
    case = {'op': op, 'specs': [list(map(list, so)), list(map(list, si))], 'args': args}
    try:
        if op == 'embed':
            r = signatures.embed(outer, inner, **args)
            desc = 'embed((%s), (%s), %s)' % (universe.spec_text(so), universe.spec_text(si), args)
        else:
            r = signatures.forwards(outer, inner, args['n'], *args['names'], **args['flags'])
            desc = 'forwards((%s), (%s), %d, %s, %s)' % (universe.spec_text(so), universe.spec_text(si), args['n'], args['names'], args['flags'])
    except ValueError:
        stats.cls('%s/raised' % op)
        return
    stats.cls(op)
    check_raw_vs_upgraded(r, stats, {'op': op, 'specs': [list(map(list, so)), list(map(list, si))], 'args': args}, desc)
    partial = op == 'forwards' and args['flags'].get('partial')
    onames = {p.name: pinfo(p) for p in outer.parameters.values()}
    inames = {p.name: pinfo(p) for p in inner.parameters.values()}
    res = [pinfo(p) for p in r.parameters.values()]
    origin = {}
    for name, kind, default, ann in res:
        if name in onames and (name not in inames or kind not in (VP, VK)):
            origin[name] = 'outer'
        elif name in inames:
            origin[name] = 'inner'
        else:
            stats.fail('C10/%s/invented-parameter' % op, case, '%s -> %s: %s comes from neither input' % (desc, r, name))
            return
    # star parameters: a forwarded star comes from inner
    for name, kind, default, ann in res:
        if kind in (VP, VK) and name in onames and name in inames:
            used = args.get('use_varargs', True) if op == 'embed' else args['flags'].get('use_varargs', True)
            usedk = args.get('use_varkwargs', True) if op == 'embed' else args['flags'].get('use_varkwargs', True)
            origin[name] = 'inner' if ((kind == VP and used) or (kind == VK and usedk)) else 'outer'
    dropped_outer_default = False
    for idx, (name, kind, default, ann) in enumerate(res):
        c = onames[name] if origin[name] == 'outer' else inames[name]
        if kind in (VP, VK):
            # a forwarded star parameter stands for the outer star and the inner star it is merged with
            stars = [v[3] for v in list(onames.values()) + list(inames.values()) if v[1] == kind]
            if ann != NOANN and ann not in stars:
                stats.fail('C10/%s/star-annotation-invented' % op, case, '%s -> %s: annotation of %s is %r, star contributors have %r' % (desc, r, name, ann, stars))
        elif ann != c[3]:
            stats.fail('C10/%s/annotation' % op, case, '%s -> %s: annotation of %s is %r, its contributor has %r' % (desc, r, name, ann, c[3]))
        if kind not in (VP, VK) and not kind_ok(kind, [c[1]]):
            stats.fail('C10/%s/kind' % op, case, '%s -> %s: kind of %s is %d, contributor has %d' % (desc, r, name, kind, c[1]))
        if kind in (VP, VK):
            continue
        cdef = c[2]
        if origin[name] == 'inner' and partial:
            cdef = None
        if default == cdef or (default == NODEF and cdef == NODEF):
            continue
        if default != NODEF:
            stats.fail('C10/%s/default-value' % op, case, '%s -> %s: default of %s is %r, its contributor has %r' % (desc, r, name, default, cdef))
            continue
        # a default was dropped
        follows = [x for x in res[idx + 1:] if x[1] in (PO, POK) and origin[x[0]] == 'inner' and x[2] == NODEF]
        if origin[name] == 'outer' and kind in (PO, POK) and follows:
            dropped_outer_default = True
            continue
        stats.fail('C10/%s/default-dropped' % op, case, '%s -> %s: the default of %s (%s parameter, %r) was dropped without a required inner positional parameter after it' % (
            desc, r, name, origin[name], cdef))
    # outer before inner within each kind group
    for group in ((PO,), (POK,), (KWO,)):
        seq = [origin[x[0]] for x in res if x[1] in group]
        if 'inner' in seq and 'outer' in seq[seq.index('inner'):]:
            stats.fail('C10/%s/outer-before-inner' % op, case, '%s -> %s: an outer parameter follows an inner one among kind %s' % (desc, r, group))
    # relative order kept
    for label, src in (('outer', outer), ('inner', inner)):
        mine = [q.name for q in src.parameters.values() if int(q.kind) in (PO, POK) and origin.get(q.name) == label]
        got = [x[0] for x in res if x[1] in (PO, POK) and origin[x[0]] == label]
        if [n for n in mine if n in got] != got:
            stats.fail('C10/%s/positional-order' % op, case, '%s -> %s: %s positional parameters out of order' % (desc, r, label))
    if 'inner' in origin.values() and any(v[2] != NODEF for v in onames.values()):
        stats.nontriv((op, universe.spec_text(so), universe.spec_text(si), args))
        stats.sample(op + ('/outer-default-dropped' if dropped_outer_default else ''), {'call': desc, 'result': str(r)})
        if dropped_outer_default:
            stats.cls(op + '/outer-default-dropped')


def check_mask(spec, n, names, stats):
    from sigtools import signatures
    stats.case()
    sig = build_sig(spec, 'f')
    try:
        r = signatures.mask(sig, n, *names)
    except ValueError:
        stats.cls('mask/raised')
        return
    stats.cls('mask')
    case = {'op': 'mask', 'specs': [list(map(list, spec))], 'args': {'n': n, 'names': list(names)}}
    desc = 'mask((%s), %d, %s)' % (universe.spec_text(spec), n, list(names))
    orig = {p.name: pinfo(p) for p in sig.parameters.values()}
    res = [pinfo(p) for p in r.parameters.values()]
    for name, kind, default, ann in res:
        if name not in orig:
            stats.fail('C10/mask/invented-parameter', case, '%s -> %s' % (desc, r))
            continue
        o = orig[name]
        if default != o[2] or ann != o[3]:
            stats.fail('C10/mask/default-or-annotation', case, '%s -> %s: %s changed default/annotation from %r/%r to %r/%r' % (desc, r, name, o[2], o[3], default, ann))
        if kind != o[1] and not (o[1] == POK and kind == KWO):
            stats.fail('C10/mask/kind', case, '%s -> %s: kind of %s went from %d to %d' % (desc, r, name, o[1], kind))
    pos = [q.name for q in sig.parameters.values() if int(q.kind) in (PO, POK)]
    got = [x[0] for x in res if x[1] in (PO, POK)]
    if [x for x in pos if x in got] != got:
        stats.fail('C10/mask/positional-order', case, '%s -> %s' % (desc, r))
    if n or names:
        stats.nontriv(('mask', universe.spec_text(spec), n, tuple(names)))
        stats.sample('mask', {'call': desc, 'result': str(r)})


def check_partial(spec, names, stats):
    from sigtools import signatures
    stats.case()
    src = 'def f(%s):\n    return 0\n' % universe.spec_text(spec)
    f = realfn.load(src, dict(G), register=False)['f']
    # bound values: fresh objects, and the values most likely to be mistaken for "nothing bound"
    for variant, special in (('fresh', None), ('falsy', [None, 0, '', False, ()])):
        vals = {k: (object() if special is None else special[i % len(special)]) for i, k in enumerate(names)}
        p = functools.partial(f, **vals)
        try:
            r = signatures.signature(p)
        except ValueError:
            stats.cls('partial/raised')
            return
        stats.cls('partial/' + variant)
        case = {'op': 'partial', 'specs': [list(map(list, spec))], 'args': {'names': list(names)}}
        for k in names:
            q = r.parameters.get(k)
            if q is None or int(q.kind) != KWO or q.default is not vals[k]:
                stats.fail('C10/partial/bound-keyword/' + variant, case, 'partial(f(%s), %s) -> %s: %s should be keyword-only with the bound object %r as default' % (
                    universe.spec_text(spec), ', '.join('%s=%r' % kv for kv in vals.items()), r, k, vals[k]))
    if names:
        stats.nontriv(('partial', universe.spec_text(spec), tuple(names)))
        stats.sample('partial', {'function': universe.spec_text(spec), 'bound': list(names), 'result': str(r)})


# --------------------------------------------------------------------------- generators

HN = ('a', 'b', 'c', 'd', 'e')


def st_aligned_tagged():
    from hypothesis import strategies as st

    @st.composite
    def build(draw):
        spine = draw(universe.st_spec(HN, 5, ('args',), ('kwargs',), p_star=0.0))
        n = draw(st.sampled_from([2, 2, 3, 3]))
        pos = [p for p in spine if p.kind in (PO, POK)]
        kwo = [p for p in spine if p.kind == KWO]
        out = []
        for _ in range(n):
            cut = draw(st.integers(0, len(pos)))
            ps = [[p.name, p.kind, None, draw(st.sampled_from(ANNS))] for p in pos[:cut]]
            dcut = draw(st.integers(0, cut))
            for k in range(dcut, cut):
                ps[k][2] = draw(st.sampled_from(DEFAULTS[1:]))
            if draw(st.booleans()):
                ps.append([draw(st.sampled_from(['args', 'p'])), VP, None, draw(st.sampled_from(ANNS))])
            for p in kwo:
                if draw(st.booleans()):
                    ps.append([p.name, KWO, draw(st.sampled_from(DEFAULTS)), draw(st.sampled_from(ANNS))])
            if draw(st.booleans()):
                ps.append([draw(st.sampled_from(['kwargs', 'k'])), VK, None, draw(st.sampled_from(ANNS))])
            out.append(tuple(Par(*p) for p in ps))
        return ('merge', tuple(out))
    return build()


def st_renamed():
    from hypothesis import strategies as st

    @st.composite
    def build(draw):
        n = draw(st.integers(1, 3))
        out = []
        first = draw(st.permutations(['a', 'b', 'c', 'd']))[:n]
        for i in range(2):
            if i == 0:
                names = first
            else:
                # at each position: the same name, or a name the other input does not use at all
                names = [nm if draw(st.booleans()) else fresh for nm, fresh in zip(first, ['x', 'y', 'z'])]
            cut = draw(st.integers(0, n))
            npo = draw(st.integers(0, n))       # leading positional-only ones; the rest positional-or-keyword
            ps = [Par(nm, PO if k < npo else POK, draw(st.sampled_from(DEFAULTS[1:])) if k >= cut else None, draw(st.sampled_from(ANNS)))
                  for k, nm in enumerate(names)]
            if draw(st.booleans()):
                ps.append(Par('args', VP))
            out.append(tuple(ps))
        return ('renamed', tuple(out))
    return build()


def st_embed():
    from hypothesis import strategies as st

    @st.composite
    def build(draw):
        outer = draw(universe.st_spec(('a', 'b', 'c'), 3, ('args', 'p'), ('kwargs', 'k'), p_star=0.85, default_exprs=tuple(DEFAULTS[1:]), ann_exprs=('A1', 'A2')))
        inner = draw(universe.st_spec(('x', 'y', 'z'), 3, ('args', 'p'), ('kwargs', 'k'), p_star=0.4, default_exprs=tuple(DEFAULTS[1:]), ann_exprs=('A1', 'A2')))
        if draw(st.booleans()):
            return ('embed', outer, inner, {'use_varargs': draw(st.booleans()) or True, 'use_varkwargs': draw(st.booleans()) or True}
                    if draw(st.booleans()) else {'use_varargs': draw(st.booleans()), 'use_varkwargs': draw(st.booleans())})
        cand = [p.name for p in inner if p.kind in (POK, KWO)] + ['q']
        names = draw(st.lists(st.sampled_from(cand), max_size=2, unique=True))
        fl = {'use_varargs': draw(st.booleans()) or draw(st.booleans()), 'use_varkwargs': draw(st.booleans()) or draw(st.booleans()),
              'partial': draw(st.integers(0, 3)) == 0}
        return ('forwards', outer, inner, {'n': draw(st.integers(0, 2)), 'names': names, 'flags': fl})
    return build()


def st_mask():
    from hypothesis import strategies as st

    @st.composite
    def build(draw):
        spec = draw(universe.st_spec(HN, 5, ('args',), ('kwargs',), default_exprs=tuple(DEFAULTS[1:]), ann_exprs=('A1', 'A2')))
        cand = [p.name for p in spec if p.kind in (POK, KWO)] + ['q']
        names = draw(st.lists(st.sampled_from(cand), max_size=3, unique=True))
        if draw(st.booleans()):
            return ('partial', spec, names)
        return ('mask', spec, draw(st.integers(0, len(spec))), names)
    return build()


def st_case():
    from hypothesis import strategies as st
    return st.one_of(st_aligned_tagged(), st_aligned_tagged(), st_renamed(), st_embed(), st_embed(), st_mask())


def check_hyp(case, stats):
    kind = case[0]
    if kind == 'merge':
        check_merge(case[1], stats)
    elif kind == 'renamed':
        check_renamed(case[1], stats)
    elif kind in ('embed', 'forwards'):
        check_embed(case[1], case[2], case[3], stats, kind)
    elif kind == 'mask':
        check_mask(case[1], case[2], case[3], stats)
    else:
        check_partial(case[1], case[2], stats)


def shard_hyp(arg):
    seed, n = arg
    st = Stats()
    hyp_search(st_case(), check_hyp, st, n, seed)
    return st


def tagged(spec, salt):
    out = []
    for i, p in enumerate(spec):
        h = (hash((p.name, salt, i)) >> 3) & 0xff
        d = p.default if p.default is None else DEFAULTS[1 + h % (len(DEFAULTS) - 1)]
        a = ANNS[(h >> 4) % 3]
        out.append(p._replace(default=d, ann=a))
    return tuple(out)


def shard_pairs(arg):
    idxs, = arg
    from checks import c09
    c09._init()
    st = Stats()
    U = [s for s in c09.UNIV if len([p for p in s if p.kind in (PO, POK, KWO)]) <= 2]
    IDX = [i for i, s in enumerate(c09.UNIV) if len([p for p in s if p.kind in (PO, POK, KWO)]) <= 2]
    for ii in idxs:
        i = IDX[ii]
        for j in IDX:
            if c09.aligned(i, j):
                for salt in (1, 2):
                    check_merge((tagged(c09.UNIV[i], salt), tagged(c09.UNIV[j], salt + 10)), st, enum=True)
    return st


def run(ctx):
    total = Stats()
    from checks import c09
    c09._init()
    n2 = len([s for s in c09.UNIV if len([p for p in s if p.kind in (PO, POK, KWO)]) <= 2])
    idx = ctx.stride(list(range(n2)), ctx.pick(0.08, 1.0))
    total.merge(ctx.pmap(shard_pairs, [(idx[i::64],) for i in range(64) if idx[i::64]]))
    if not ctx.quick:
        total.exhaustive['name-aligned ordered pairs of the <=2-named universe x 2 taggings (merge)'] = n2 * n2
    nh = ctx.pick(16000, 400000)
    total.merge(ctx.pmap(shard_hyp, [(s, nh // 16) for s in ctx.shard_seeds(16)]))
    return total


def replay(case, stats):
    specs = [tuple(Par(*p) for p in s) for s in case['specs']]
    op = case['op']
    if op == 'merge':
        check_merge(tuple(specs), stats)
    elif op == 'renamed':
        check_renamed(tuple(specs), stats)
    elif op in ('embed', 'forwards'):
        check_embed(specs[0], specs[1], case['args'], stats, op)
    elif op == 'mask':
        check_mask(specs[0], case['args']['n'], case['args']['names'], stats)
    else:
        check_partial(specs[0], case['args']['names'], stats)
