"""C09 -- merge exactness on name-aligned inputs; identity, neutral-element, round-trip, fold laws.

 (a) aligned (a, b): non-colliding shapes accepted by merge(a, b) == those accepted by both
 (b) aligned (a, b): IncompatibleSignatures <=> no shape at all is accepted by both
 (c) merge(s) == s, merge(s, s) == s, bare (*args, **kwargs) neutral on either side up to star names,
     apply_params(s, *sort_params(s)) == s (parameters; with sources=True also provenance)
 (d) role-consistent triples: merge(a, b, c) vs merge(merge(a, b), c): both raise or equal in parameters
     and provenance
"""
from vlib import cpbind, realfn, universe
from vlib.framework import Stats, hyp_search
from vlib.shapeset import ShapeSpace
from vlib.universe import Par, PO, POK, VP, KWO, VK
from checks.c03 import full_view, canon_params

LEVEL = 'exploration'
RULE = ('E2: all ordered pairs of the <=3-named universe over a,b,c (1 972 signatures; thorough all 3.9M pairs, quick a '
        'stride sample of left operands) filtered to name-aligned ones, compared on 80 shapes (0..4 positionals x subsets '
        'of {a,b,c,q}); unary laws on every signature of the universe with both star spellings; role-consistent triples: '
        'all of the <=1-named universe over a,b plus a sample of the <=2-named one; E1 Hypothesis aligned pairs / consistent '
        'triples with <=5 named parameters built from a common spine. Non-trivial = a != b and merge returned a result '
        'accepting >=1 shape, or merge raised (both classes populated); distinct by the input tuple.')
ASSUMPTIONS = ['results compared up to keyword-only parameter order']

_spaces = {}
SPACE = None
UNIV = None
VIEWS = None
ALIGN = None


def _init():
    global SPACE, UNIV, VIEWS, ALIGN
    if SPACE is None:
        SPACE = ShapeSpace(('a', 'b', 'c', 'q'), 4)
        UNIV = universe.enum_specs(('a', 'b', 'c'), 3, ('args',), ('kwargs',))
        VIEWS = [universe.spec_view(s) for s in UNIV]
        # alignment signature of a spec: positional names in order + roles
        ALIGN = [(tuple(n for n, k, d in v if k in (0, 1)), cpbind.roles(v)) for v in VIEWS]


def aligned(i, j):
    pa, ra = ALIGN[i]
    pb, rb = ALIGN[j]
    m = min(len(pa), len(pb))
    if pa[:m] != pb[:m]:
        return False
    for n, r in ra.items():
        o = rb.get(n)
        if o is not None and o != r:
            return False
    return True


def merge_sigs(*sigs):
    from sigtools import signatures
    try:
        return signatures.merge(*sigs), None
    except signatures.IncompatibleSignatures as e:
        return None, 'IncompatibleSignatures'
    except ValueError as e:
        return None, 'ValueError'


def check_pair(space, sa, sb, stats, enum):
    check_exact(space, (sa, sb), stats, enum)


def check_exact(space, specs, stats, enum):
    """Name-aligned inputs (two or more): the result accepts exactly the non-colliding calls all inputs accept, and merge raises
    IncompatibleSignatures exactly when there is no such call."""
    stats.case()
    views = [universe.spec_view(s) for s in specs]
    r, exc = merge_sigs(*[realfn.sig_of(s, 'f%d' % i) for i, s in enumerate(specs)])
    both = space.full
    for v in views:
        both &= space.acc(v)
    case = {'op': 'pair' if len(specs) == 2 else 'aligned-%d' % len(specs), 'specs': [list(map(list, s)) for s in specs]}
    desc = 'merge(%s)' % ', '.join('(%s)' % universe.spec_text(s) for s in specs)
    tag = '' if len(specs) == 2 else '/n=%d' % len(specs)
    key = tuple(universe.spec_text(s) for s in specs)
    if r is None:
        stats.cls('aligned/raised' + tag)
        stats.nontriv_enum() if enum else stats.nontriv(key)
        stats.sample('aligned/raised' + tag, {'call': desc})
        if exc != 'IncompatibleSignatures':
            stats.fail('C09/raise-type' + tag, case, '%s raised a plain ValueError instead of IncompatibleSignatures' % desc)
        # for three or more inputs the fold law fixes the outcome step by step, and a step may have to make a parameter
        # positional-only that a later input can only receive by keyword: only a common all-positional call (colliding for no
        # possible result) is a witness there
        witness = both if len(specs) == 2 else both & space.allpos
        if witness:
            npos, kws = space.first(witness)
            stats.fail('C09/raise-but-common-call' + tag, case, '%s raised although all inputs accept (npos=%d, kw=%s)' % (desc, npos, list(kws)))
        return
    stats.cls('aligned/returned' + tag)
    rv = universe.sig_view(r)
    racc = space.acc(rv)
    if not both:
        stats.fail('C09/return-but-no-common-call' + tag, case, '%s -> %s although no call shape is accepted by all inputs' % (desc, r))
    nc = space.noncolliding(rv, views)
    if len(set(specs)) > 1 and racc:
        stats.nontriv_enum() if enum else stats.nontriv(key)
        stats.sample('aligned/returned' + tag, {'call': desc, 'result': str(r), 'noncolliding_accepted': space.count(racc & nc)})
    diff = (racc ^ both) & nc
    if diff:
        npos, kws = space.first(diff)
        got = cpbind.accepts(rv, npos, kws)
        stats.fail('C09/%s%s' % ('unsound' if got else 'inexact', tag), case,
                   '%s -> %s %s (npos=%d, kw=%s) but %s' % (desc, r, 'accepts' if got else 'rejects', npos, list(kws),
                                                           'an input rejects it' if got else 'all inputs accept it'))


def star_normalised(sig):
    ps, kwo = canon_params(sig)
    return (tuple(p._replace(name='*') if p.kind in (VP, VK) else p for p in ps), kwo)


def check_unary(spec, stats):
    from sigtools import signatures
    s = realfn.sig_of(spec, 'f0')
    desc = universe.spec_text(spec)
    case = {'op': 'unary', 'specs': [list(map(list, spec))]}
    stats.case(5)
    stats.cls('unary')
    for label, args in (('merge(s)', (s,)), ('merge(s,s)', (s, s))):
        r, exc = merge_sigs(*args)
        if r is None or canon_params(r) != canon_params(s):
            stats.fail('C09/law/%s' % label, case, '%s for s=(%s) gave %s' % (label, desc, r if r is not None else exc))
    r, exc = merge_sigs(s)
    if r is not None and full_view(r) != full_view(s):
        stats.fail('C09/law/merge(s)-sources', case, 'merge(s).sources differs from s.sources for s=(%s)' % desc)
    if any(p.default is not None for p in spec):
        # the same laws with defaults that are false in a boolean context (and the signature of another function that
        # spells the same parameters: what both inputs agree on is kept)
        # ... and with defaults that cannot be hashed: two functions spelling the same default hold equal, distinct objects
        falsy = ('0', 'False', "''", '()', '0.0', 'None', 'frozenset()', '[]', "['x', 'y']", '{}', "{'k': 1}", 'set()')
        k = [0]

        def nxt(p):
            k[0] += 1
            return p._replace(default=falsy[(k[0] + len(spec)) % len(falsy)])
        fspec = tuple(nxt(p) if p.default is not None else p for p in spec)
        sf, sg = realfn.sig_of(fspec, 'f0'), realfn.sig_of(fspec, 'g0')
        fdesc = universe.spec_text(fspec)
        stats.case(3)
        stats.cls('unary/falsy-defaults')
        for label, args in (('merge(s)', (sf,)), ('merge(s,s)', (sf, sf)), ('merge(s,t)-same-parameters', (sf, sg))):
            r, exc = merge_sigs(*args)
            if r is None or canon_params(r) != canon_params(sf):
                stats.fail('C09/law/falsy-defaults/%s' % label, dict(case, spec_used=fdesc),
                           '%s for s=(%s)%s gave %s' % (label, fdesc, ' and t the signature of another function with the same parameters' if 'same' in label else '', r if r is not None else exc))
    variants = [('args', 'kwargs', False), ('p', 'k', False)]
    named = [p.name for p in spec if p.kind in (PO, POK, KWO)]
    if named:
        # the bare signature's stars spelled like a named parameter of s ("up to the names of star parameters")
        variants += [(named[0], 'kwargs', True), ('args', named[-1], True)]
    for an, kn, clash in variants:
        bare = realfn.sig_of((Par(an, VP), Par(kn, VK)), 'bare')
        for label, args in (('merge(s,bare)', (s, bare)), ('merge(bare,s)', (bare, s))):
            r, exc = merge_sigs(*args)
            if r is None or star_normalised(r) != star_normalised(s):
                stats.fail('C09/law/neutral' + ('/star-spelled-like-a-parameter' if clash else ''), dict(case, bare=[an, kn], order=label),
                           '%s for s=(%s), bare=(*%s, **%s) gave %s' % (label, desc, an, kn, r if r is not None else exc))
    sp = signatures.sort_params(s)
    rt = signatures.apply_params(s, *sp)
    if universe.spec_from_sig(rt) != universe.spec_from_sig(s) or full_view(rt) != full_view(s):
        stats.fail('C09/law/roundtrip', case, 'apply_params(s, *sort_params(s)) = %s for s=(%s)' % (rt, desc))
    sp = signatures.sort_params(s, sources=True)
    rt = signatures.apply_params(s, *sp)
    if universe.spec_from_sig(rt) != universe.spec_from_sig(s) or full_view(rt) != full_view(s):
        stats.fail('C09/law/roundtrip-sources', case, 'apply_params(s, *sort_params(s, sources=True)) differs for s=(%s)' % desc)


def check_unary_annotated(spec, stats):
    """The same laws on a fully annotated copy (every parameter incl. the stars, and the return value),
    compared with the signatures' own == (which covers annotations, upgraded annotations and the return annotation)."""
    from sigtools import signatures
    aspec = tuple(p._replace(ann=repr('ann-' + p.name)) for p in spec)
    src = 'def f0(%s) -> "RET":\n    return 0\n' % universe.spec_text(aspec)
    g = realfn.load(src, register=False)
    s = signatures.signature(g['f0'])
    desc = universe.spec_text(aspec) + ' -> "RET"'
    case = {'op': 'unary-annotated', 'specs': [list(map(list, spec))]}
    stats.case(4)
    stats.cls('unary-annotated')
    for label, args in (('merge(s)', (s,)), ('merge(s,s)', (s, s))):
        r, exc = merge_sigs(*args)
        if r is None or not (r == s) or str(r) != str(s) or str(r.evaluated()) != str(s.evaluated()):
            stats.fail('C09/law/annotated/%s' % label, case, '%s for s=(%s) gave %s (== s: %s)' % (label, desc, r if r is not None else exc, r == s if r is not None else None))
    bare = realfn.sig_of((Par('args', VP), Par('kwargs', VK)), 'bare')
    for label, args in (('merge(s,bare)', (s, bare)), ('merge(bare,s)', (bare, s))):
        r, exc = merge_sigs(*args)
        if r is None or star_normalised(r) != star_normalised(s):
            stats.fail('C09/law/annotated/neutral', dict(case, order=label),
                       '%s for s=(%s) gave %s: parameter annotations must survive a bare (*args, **kwargs)' % (label, desc, r if r is not None else exc))
    # ... and on a copy whose postponed annotations cannot be evaluated (a class that is generic only for the type checker,
    # an attribute that only exists in the stubs): the laws are about signatures, not about what their annotations denote
    named = [p for p in spec if p.kind not in (VP, VK)]
    if named:
        uspec = tuple(p._replace(ann=('T9[int]', 'T9.only_in_stubs', 'Missing9')[i % 3]) if p.kind not in (VP, VK) else p for i, p in enumerate(spec))
        us = realfn.sig_of(uspec, 'f0')
        for label, args in (('merge(s)', (us,)), ('merge(s,s)', (us, us))):
            try:
                r, exc = merge_sigs(*args)
            except Exception as e:
                stats.fail('C09/law/unevaluable-annotations/%s-raised-%s' % (label, type(e).__name__), dict(case, spec_used=universe.spec_text(uspec)),
                           '%s for s=(%s) [postponed] raised %s: %s' % (label, universe.spec_text(uspec), type(e).__name__, e))
                continue
            if r is None or str(r) != str(us):
                stats.fail('C09/law/unevaluable-annotations/%s' % label, dict(case, spec_used=universe.spec_text(uspec)),
                           '%s for s=(%s) [postponed] gave %s' % (label, universe.spec_text(uspec), r if r is not None else exc))
    rt = signatures.apply_params(s, *signatures.sort_params(s))
    if not (rt == s) or str(rt) != str(s) or str(rt.evaluated()) != str(s.evaluated()):
        stats.fail('C09/law/annotated/roundtrip', case, 'apply_params(s, *sort_params(s)) = %s (evaluated: %s) for s=(%s)' % (rt, rt.evaluated(), desc))
    if spec:
        stats.nontriv_enum()


def space_for(specs):
    names = []
    for s in specs:
        for p in s:
            if p.kind in (0, 1, 3) and p.name not in names:
                names.append(p.name)
    key = (tuple(names[:6]) + ('q',), max(cpbind.poscap(universe.spec_view(s)) for s in specs) + 1)
    sp = _spaces.get(key)
    if sp is None:
        if len(_spaces) > 64:
            _spaces.clear()
        sp = _spaces[key] = ShapeSpace(key[0], key[1])
    return sp


def check_triple(specs, stats, enum):
    views = [universe.spec_view(s) for s in specs]
    if not cpbind.role_consistent(views):
        stats.cls('triple/inconsistent-skipped')
        return
    if cpbind.name_aligned(views):
        # the exactness clause for three inputs
        check_exact(space_for(specs), tuple(specs), stats, enum)
    stats.case()
    sigs = [realfn.sig_of(s, 'f%d' % i) for i, s in enumerate(specs)]
    nary, e1 = merge_sigs(*sigs)
    ab, e2 = merge_sigs(sigs[0], sigs[1])
    nested, e3 = (None, e2) if ab is None else merge_sigs(ab, sigs[2])
    case = {'op': 'triple', 'specs': [list(map(list, s)) for s in specs]}
    desc = ', '.join('(%s)' % universe.spec_text(s) for s in specs)
    if nary is None and nested is None:
        stats.cls('triple/both-raise')
        return
    stats.cls('triple/returned')
    if len(set(specs)) > 1:
        stats.nontriv_enum() if enum else stats.nontriv([universe.spec_text(s) for s in specs])
        stats.sample('triple/returned', {'inputs': desc, 'nary': str(nary), 'nested': str(nested)})
    if (nary is None) != (nested is None):
        stats.fail('C09/fold/raise-mismatch', case, 'merge(%s): n-ary -> %s, nested -> %s' % (desc, nary or e1, nested or e3))
    elif canon_params(nary) != canon_params(nested):
        stats.fail('C09/fold/params', case, 'merge(%s): n-ary -> %s, nested -> %s' % (desc, nary, nested))
    elif full_view(nary) != full_view(nested):
        stats.fail('C09/fold/sources', case, 'merge(%s) -> %s: provenance differs between n-ary and nested form' % (desc, nary))


def shard_pairs(arg):
    idxs, = arg
    _init()
    st = Stats()
    n = len(UNIV)
    for i in idxs:
        for j in range(n):
            if aligned(i, j):
                check_pair(SPACE, UNIV[i], UNIV[j], st, True)
            else:
                st.extra['pairs_not_aligned'] += 1
    return st


def shard_unary(arg):
    specs, = arg
    st = Stats()
    for s in specs:
        check_unary(s, st)
        check_unary_annotated(s, st)
    return st


def shard_triples_small(arg):
    idxs, = arg
    st = Stats()
    U1 = universe.enum_specs(('a', 'b'), 1, ('args', 'p'), ('kwargs', 'k'))
    for i in idxs:
        for b in U1:
            for c in U1:
                check_triple((U1[i], b, c), st, True)
    return st


def shard_triples_sampled(arg):
    start, step, count = arg
    st = Stats()
    U2 = universe.enum_specs(('a', 'b', 'c'), 2, ('args',), ('kwargs',))
    n = len(U2)
    total = n ** 3
    x = start
    for _ in range(count):
        x = (x + step) % total
        i, rem = divmod(x, n * n)
        j, k = divmod(rem, n)
        check_triple((U2[i], U2[j], U2[k]), st, False)
    return st


HN = ('a', 'b', 'c', 'd', 'e')


def st_aligned():
    """Aligned / consistent tuples by construction: every input is a sub-selection of one spine's
    parameters (so names keep position and role), with own defaults and stars."""
    from hypothesis import strategies as st

    @st.composite
    def build(draw):
        spine = draw(universe.st_spec(HN, 5, ('args',), ('kwargs',), p_star=0.0))
        n = draw(st.sampled_from([2, 2, 3]))
        out = []
        pos = [p for p in spine if p.kind in (0, 1)]
        kwo = [p for p in spine if p.kind == 3]
        for _ in range(n):
            cut = draw(st.integers(0, len(pos)))     # a positional prefix keeps index alignment
            ps = [[p.name, p.kind, None, None] for p in pos[:cut]]
            dcut = draw(st.integers(0, cut))
            for k in range(dcut, cut):
                ps[k][2] = '1'
            if draw(st.booleans()):
                ps.append([draw(st.sampled_from(['args', 'p'])), VP, None, None])
            for p in kwo:
                if draw(st.booleans()):
                    ps.append([p.name, 3, draw(st.sampled_from([None, '1'])), None])
            if draw(st.booleans()):
                ps.append([draw(st.sampled_from(['kwargs', 'k'])), VK, None, None])
            out.append(tuple(Par(*p) for p in ps))
        return tuple(out)
    return build()


def check_hyp(specs, stats):
    if len(specs) == 2:
        names = []
        for s in specs:
            for p in s:
                if p.kind in (0, 1, 3) and p.name not in names:
                    names.append(p.name)
        key = (tuple(names[:6]) + ('q',), max(cpbind.poscap(universe.spec_view(s)) for s in specs) + 1)
        sp = _spaces.get(key)
        if sp is None:
            if len(_spaces) > 64:
                _spaces.clear()
            sp = _spaces[key] = ShapeSpace(key[0], key[1])
        views = [universe.spec_view(s) for s in specs]
        if not cpbind.name_aligned(views):
            from vlib.framework import HarnessError
            raise HarnessError('generator produced a non-aligned pair: %r' % (specs,))
        check_pair(sp, specs[0], specs[1], stats, False)
    else:
        check_triple(tuple(specs), stats, False)


def shard_hyp(arg):
    seed, n = arg
    st = Stats()
    hyp_search(st_aligned(), check_hyp, st, n, seed)
    return st


def run(ctx):
    _init()
    total = Stats()
    n = len(UNIV)
    idx = ctx.stride(list(range(n)), ctx.pick(0.06, 1.0))
    total.merge(ctx.pmap(shard_pairs, [(idx[i::128],) for i in range(128) if idx[i::128]]))
    U2s = universe.enum_specs(('a', 'b', 'c'), 3, ('args', 'p'), ('kwargs', 'k'))
    un = ctx.stride(U2s, ctx.pick(0.1, 1.0))
    total.merge(ctx.pmap(shard_unary, [(un[i::32],) for i in range(32) if un[i::32]]))
    if not ctx.quick:
        total.exhaustive['ordered pairs of the <=3-named universe, name-aligned ones checked'] = n * n
        total.exhaustive['unary laws on the <=3-named universe with both star spellings'] = len(U2s)
        U1n = len(universe.enum_specs(('a', 'b'), 1, ('args', 'p'), ('kwargs', 'k')))
        total.merge(ctx.pmap(shard_triples_small, [(list(range(U1n))[i::32],) for i in range(32)]))
        total.exhaustive['ordered triples of the <=1-named universe over a,b, role-consistent ones checked'] = U1n ** 3
    nt = ctx.pick(200000, 3000000)
    total.merge(ctx.pmap(shard_triples_sampled, [(ctx.seed * 7919 + s * 104729, 1000003 + 2 * s, nt // 32) for s in range(32)]))
    nh = ctx.pick(3200, 32000)
    total.merge(ctx.pmap(shard_hyp, [(s, nh // 16) for s in ctx.shard_seeds(16)]))
    return total


def replay(case, stats):
    specs = tuple(tuple(Par(*p) for p in s) for s in case['specs'])
    if case['op'] == 'unary-annotated':
        check_unary_annotated(specs[0], stats)
    elif case['op'] == 'unary':
        check_unary(specs[0], stats)
    else:
        check_hyp(specs, stats)
