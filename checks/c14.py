"""C14 -- returned signatures are drop-in inspect.Signature objects.

With plain(x) = the inspect.Signature / inspect.Parameter rebuilt from the same data:
  * str(sig) == str(plain(sig)); bind / bind_partial on every shape give the same `arguments` or both
    raise TypeError;
  * replace() returns the upgraded type and keeps sources / upgraded annotations unless overridden;
  * == and != against every partner return a bool without raising, (a != b) == (not (a == b)), equality
    is reflexive and symmetric -- including sig == plain(sig) and plain(sig) == sig both True -- and
    consistent with hash; hash(x) works whenever hash(plain(x)) does."""
import inspect
import itertools
import warnings

from vlib import cpbind, realfn, universe
from vlib.framework import Stats, hyp_search
from vlib.universe import Par, PO, POK, VP, KWO, VK
from checks import c15

LEVEL = 'exploration'
RULE = ('Signatures (and each of their parameters) from: the <=3-named universe with defaults/annotations/return annotation, '
        'eager and postponed; results of merge/embed/mask/forwards over sampled universe pairs; discovery results of generated '
        'wrappers. Each x all call shapes (bind, bind_partial) x a menagerie of comparison partners (None, str, int, tuple, '
        'object with NotImplemented __eq__, its own plain counterpart, an equal upgraded copy, upgraded and plain copies '
        'differing in exactly one field: name, kind, default, annotation, upgraded annotation, return annotation, one parameter '
        'dropped). Non-trivial = comparison with a partner other than the object itself, or a bind on a shape with arguments; '
        'distinct by (signature text, origin, partner kind).')
ASSUMPTIONS = ['hash consistency is checked for hashable default/annotation values only (plain objects are unhashable otherwise too)']

KW = ('a', 'b', 'c', 'q')


class Indifferent(object):
    def __eq__(self, other):
        return NotImplemented

    __hash__ = object.__hash__


def plain_param(p):
    return inspect.Parameter(p.name, p.kind, default=p.default, annotation=p.annotation)


def plain_sig(s):
    return inspect.Signature([plain_param(p) for p in s.parameters.values()], return_annotation=s.return_annotation)


def safe_cmp(a, b, stats, case, what):
    """a == b and a != b must return bools without raising."""
    out = []
    for op, fn in (('==', lambda: a == b), ('!=', lambda: a != b)):
        try:
            with warnings.catch_warnings():
                warnings.simplefilter('ignore')
                r = fn()
        except Exception as e:
            stats.fail('C14/compare-raises/%s/%s' % (what, type(e).__name__), case, '%s %s %s raised %s: %s' % (descr(a), op, descr(b), type(e).__name__, e))
            return None
        if not isinstance(r, bool):
            stats.fail('C14/compare-not-bool/%s' % what, case, '%s %s %s returned %r' % (descr(a), op, descr(b), r))
            return None
        out.append(r)
    if out[0] == out[1]:
        stats.fail('C14/ne-not-negation/%s' % what, case, '%s: == gives %r and != gives %r against %s' % (descr(a), out[0], out[1], descr(b)))
    return out[0]


def descr(x):
    if isinstance(x, inspect.Signature):
        return '%s%s' % (type(x).__name__, x)
    if isinstance(x, inspect.Parameter):
        return '%s<%s>' % (type(x).__name__, x)
    return repr(x)[:60]


def check_equality(x, partners, stats, case, what):
    """partners: list of (label, object, expected equality or None if unconstrained)."""
    for label, y, expected in partners:
        stats.case()
        stats.cls('%s-vs-%s' % (what, label))
        c = dict(case, partner=label)
        xy = safe_cmp(x, y, stats, c, '%s-vs-%s' % (what, label))
        yx = safe_cmp(y, x, stats, c, '%s-vs-%s-reflected' % (what, label))
        if xy is None or yx is None:
            continue
        if xy != yx:
            stats.fail('C14/asymmetric/%s-vs-%s' % (what, label), c, '%s == %s is %r but the reverse is %r' % (descr(x), descr(y), xy, yx))
        if expected is not None and xy != expected:
            stats.fail('C14/equality-value/%s-vs-%s' % (what, label), c, '%s == %s is %r, expected %r' % (descr(x), descr(y), xy, expected))
        if xy:
            try:
                hx, hy = hash(x), hash(y)
            except TypeError:
                continue
            except Exception as e:
                stats.fail('C14/hash-raises/%s/%s' % (what, type(e).__name__), c, 'hash of %s or %s raised %s: %s' % (descr(x), descr(y), type(e).__name__, e))
                continue
            if hx != hy:
                stats.fail('C14/hash-inconsistent/%s-vs-%s' % (what, label), c, '%s == %s but hashes differ' % (descr(x), descr(y)))


def check_hash(x, px, stats, case, what):
    stats.case()
    try:
        hash(px)
    except TypeError:
        return
    try:
        hash(x)
    except Exception as e:
        stats.fail('C14/unhashable/%s' % what, case, 'hash(%s) raised %s: %s although its plain counterpart is hashable' % (descr(x), type(e).__name__, e))


def variants_param(p):
    from sigtools import signatures
    out = [('equal-upgraded-copy', p.replace(), True)]
    out.append(('plain-counterpart', plain_param(p), True))
    out.append(('upgraded-other-name', p.replace(name=p.name + '_'), False))
    out.append(('plain-other-name', plain_param(p).replace(name=p.name + '_'), False))
    if p.kind in (POK,):
        out.append(('upgraded-other-kind', p.replace(kind=inspect.Parameter.KEYWORD_ONLY), False))
    if p.kind not in (VP, VK):
        out.append(('upgraded-other-default', p.replace(default='OTHER'), False))
        out.append(('plain-other-default', plain_param(p).replace(default='OTHER'), False))
    out.append(('upgraded-other-annotation', p.replace(annotation='OTHER', upgraded_annotation=signatures.UpgradedAnnotation.preevaluated('OTHER')), False))
    out.append(('plain-other-annotation', plain_param(p).replace(annotation='OTHER'), False))
    if p.annotation is not p.empty:
        out.append(('upgraded-other-upgraded-annotation', p.replace(upgraded_annotation=signatures.UpgradedAnnotation.preevaluated(('DIFFERENT',))), False))
        # the same plain data, but no upgraded annotation (what retrieval gives for callable instances and classes, and what
        # replace(annotation=...) leaves): whether the two are equal is not pinned down, symmetry and hash consistency are
        out.append(('upgraded-same-data-empty-upgraded-annotation', p.replace(upgraded_annotation=signatures.UpgradedAnnotation.preevaluated(p.empty)), None))
    else:
        out.append(('upgraded-annotation-only-upgraded', p.replace(upgraded_annotation=signatures.UpgradedAnnotation.preevaluated('ONLY-UPGRADED')), None))
    return out


def variants_sig(s):
    from sigtools import signatures
    ps = list(s.parameters.values())
    out = [('equal-upgraded-copy', s.replace(), True), ('plain-counterpart', plain_sig(s), True)]
    out.append(('upgraded-other-return', s.replace(return_annotation='OTHER', upgraded_return_annotation=signatures.UpgradedAnnotation.preevaluated('OTHER')), False))
    out.append(('plain-other-return', plain_sig(s).replace(return_annotation='OTHER'), False))
    if s.return_annotation is not s.empty:
        out.append(('upgraded-other-upgraded-return', s.replace(upgraded_return_annotation=signatures.UpgradedAnnotation.preevaluated(('DIFFERENT',))), False))
    if ps:
        out.append(('upgraded-parameter-dropped', s.replace(parameters=ps[:-1]), False))
        out.append(('plain-parameter-dropped', plain_sig(s).replace(parameters=[plain_param(p) for p in ps[:-1]]), False))
        q = ps[0]
        if q.kind not in (VP, VK):
            out.append(('upgraded-first-default-changed', s.replace(parameters=[q.replace(default='OTHER')] + ps[1:]) if all(
                x.kind not in (PO, POK) or x.default is not x.empty for x in ps[1:]) or q.kind == KWO else s.replace(parameters=ps[:1]), None))
    return out


FOREIGN = [('None', None, False), ('str', 'a, b', False), ('int', 3, False), ('tuple', (1, 2), False), ('indifferent-object', Indifferent(), False)]


def check_signature_object(s, origin, stats, enum=False, shapes=None, twin=None):
    text = str(s)
    case = {'signature': text, 'origin': origin}
    p = plain_sig(s)
    stats.case()
    if str(s) != str(p):
        stats.fail('C14/str', case, 'str gives %s, the plain signature prints %s' % (s, p))
    # bind / bind_partial
    view = universe.sig_view(s)
    P = cpbind.poscap(view)
    names = tuple(n for n, k, d in view if k in (PO, POK, KWO))[:4] + ('q',)
    for n in range(P + 2):
        for r in range(min(3, len(names)) + 1):
            for K in itertools.combinations(names, r):
                args = tuple(100 + i for i in range(n))
                kwargs = {k: 'k_' + k for k in K}
                for meth in ('bind', 'bind_partial'):
                    stats.case()
                    try:
                        a = getattr(s, meth)(*args, **kwargs).arguments
                    except TypeError:
                        a = 'TypeError'
                    try:
                        b = getattr(p, meth)(*args, **kwargs).arguments
                    except TypeError:
                        b = 'TypeError'
                    if a != b:
                        stats.fail('C14/%s' % meth, dict(case, args=list(args), kwargs=kwargs), '%s.%s(*%r, **%r) -> %r, plain -> %r' % (s, meth, args, kwargs, a, b))
    # comparisons
    second = [('retrieved-a-second-time', twin, True)] if twin is not None else []
    check_equality(s, [('itself', s, True)] + second + variants_sig(s) + FOREIGN, stats, case, 'signature')
    check_hash(s, p, stats, case, 'signature')
    for q in s.parameters.values():
        c = dict(case, parameter=q.name)
        second = [('retrieved-a-second-time', twin.parameters[q.name], True)] if twin is not None else []
        check_equality(q, [('itself', q, True)] + second + variants_param(q) + FOREIGN, stats, c, 'parameter')
        check_hash(q, plain_param(q), stats, c, 'parameter')
    check_replace(s, stats, case)
    if enum:
        stats.nontriv_enum()
    else:
        stats.nontriv((text, origin))
    stats.sample(origin, {'signature': text})


def check_replace(s, stats, case):
    from sigtools import signatures
    stats.case()
    ps = list(s.parameters.values())

    def snapshot():
        # what the signature and its parameters carry, by value (lists and maps copied) and by identity of the leaves
        def cp(v):
            return dict(v) if isinstance(v, dict) else list(v) if isinstance(v, (list, tuple)) else repr(v)
        return (dict((k, cp(v)) for k, v in s.sources.items()), id(s.upgraded_return_annotation), str(s),
                [(q.name, id(q.upgraded_annotation), cp(q.sources), cp(q.source_depths)) for q in ps])
    before = snapshot()
    try:
        _check_replace(s, ps, stats, case)
    finally:
        # replace() builds a new object: the one it was called on is as it was, whatever was replaced or taken away
        if snapshot() != before:
            stats.fail('C14/replace/changes-the-original', case, '%s: after replace() calls on it (and on its parameters) the signature itself carries %r, before %r' % (
                s, snapshot()[0], before[0]))
            # (signatures are shared between cases: put back what was there)
            s.sources.clear()
            s.sources.update(before[0])


def _check_replace(s, ps, stats, case):
    from sigtools import signatures
    r = s.replace()
    if type(r) is not type(s) or r.sources is not s.sources or r.upgraded_return_annotation is not s.upgraded_return_annotation:
        stats.fail('C14/replace/signature-noargs', case, '%s.replace() -> %s %r loses type, sources or upgraded return annotation' % (s, type(r).__name__, r))
    r = s.replace(parameters=ps[:-1])

    def kept(r, names):
        # provenance of what is still there is kept, nothing refers to what was taken away
        return (all(r.sources.get(k) == s.sources.get(k) for k in list(names) + ['+depths'])
                and set(r.sources) <= set(names) | {'+depths'})
    if type(r) is not type(s) or not kept(r, [q.name for q in ps[:-1]]) or r.upgraded_return_annotation is not s.upgraded_return_annotation:
        stats.fail('C14/replace/signature-parameters', case, '%s.replace(parameters=<all but the last>) loses type, provenance or upgraded return annotation, or keeps '
                   'provenance of the removed parameter: %r' % (s, sorted(k for k in r.sources if k != '+depths')))
    newsrc = {'+depths': {}}
    mark = signatures.UpgradedAnnotation.preevaluated('MARK')
    r = s.replace(sources=newsrc, upgraded_return_annotation=mark)
    if r.sources is not newsrc or r.upgraded_return_annotation is not mark or list(r.parameters.values()) != ps:
        stats.fail('C14/replace/signature-override', case, '%s.replace(sources=, upgraded_return_annotation=) did not take the overrides' % (s,))
    # overrides that are false in a boolean context are overrides too
    import collections
    for empty in ({}, collections.OrderedDict()):
        r = s.replace(sources=empty)
        if r.sources is not empty:
            stats.fail('C14/replace/signature-override-empty', case, '%s.replace(sources=%r) kept the old sources' % (s, empty))
    r = s.replace(parameters=(q for q in ps))
    if [(q.name, q.kind) for q in r.parameters.values()] != [(q.name, q.kind) for q in ps]:
        stats.fail('C14/replace/signature-parameters-iterable', case, '%s.replace(parameters=<generator of its own parameters>) -> %s (inspect.Signature accepts any iterable)' % (s, r))
    r = s.replace(parameters=[])
    if list(r.parameters.values()) != [] or not kept(r, []):
        stats.fail('C14/replace/signature-override-empty', case, '%s.replace(parameters=[]) -> %s with provenance for %r' % (s, r, sorted(k for k in r.sources if k != '+depths')))
    r = s.replace(upgraded_return_annotation=signatures.EmptyAnnotation) if hasattr(signatures, 'EmptyAnnotation') else None
    # a parameter list that mixes the signature's own parameters with a plain inspect.Parameter (deprecated but accepted): only the
    # plain one is new, the others are kept with everything they carry
    import inspect
    import warnings
    if 'zz_extra' not in s.parameters:
        extra = inspect.Parameter('zz_extra', inspect.Parameter.KEYWORD_ONLY, default=0)
        cut = len(ps) - 1 if ps and ps[-1].kind == VK else len(ps)
        with warnings.catch_warnings():
            warnings.simplefilter('ignore')
            r = s.replace(parameters=ps[:cut] + [extra] + ps[cut:])
            back = r.replace(parameters=[q for q in r.parameters.values() if q.name != 'zz_extra'])
        for q in ps:
            k = r.parameters[q.name]
            if type(k) is not type(q) or k.upgraded_annotation is not q.upgraded_annotation or k.sources != q.sources or k.source_depths != q.source_depths or k != q:
                stats.fail('C14/replace/signature-parameters-mixed', dict(case, parameter=q.name),
                           '%s.replace(parameters=<its own parameters and one plain inspect.Parameter>): parameter %s comes back without its type, '
                           'upgraded annotation or sources (%r, %r, %r)' % (s, q, k.upgraded_annotation, k.sources, k.source_depths))
                break
        else:
            if back != s or s != back:
                stats.fail('C14/replace/signature-parameters-mixed', case, '%s: adding a plain parameter with replace() and removing it again gives an unequal signature' % s)
    for q in ps:
        for kw in ({'sources': []}, {'source_depths': {}}):
            r = q.replace(**kw)
            k, v = list(kw.items())[0]
            if getattr(r, k) is not v:
                stats.fail('C14/replace/parameter-override-empty', dict(case, parameter=q.name), 'Parameter %s .replace(%s=%r) kept the old value' % (q, k, v))
    for q in ps:
        r = q.replace(name=q.name + '_')
        if type(r) is not type(q) or r.upgraded_annotation is not q.upgraded_annotation or r.sources is not q.sources or r.source_depths is not q.source_depths:
            stats.fail('C14/replace/parameter-keeps', dict(case, parameter=q.name), 'Parameter %s .replace(name=) loses type, upgraded annotation or sources' % q)
        r = q.replace(upgraded_annotation=mark, sources=['S'], source_depths={'S': 1})
        if r.upgraded_annotation is not mark or r.sources != ['S'] or r.source_depths != {'S': 1} or r.name != q.name or r.kind != q.kind:
            stats.fail('C14/replace/parameter-override', dict(case, parameter=q.name), 'Parameter %s .replace(upgraded_annotation=, sources=, source_depths=) did not take the overrides' % q)
        # both annotation overrides at once: each is taken as given (they need not denote the same thing)
        r = q.replace(annotation='RAW', upgraded_annotation=mark)
        if r.upgraded_annotation is not mark or r.annotation != 'RAW':
            stats.fail('C14/replace/parameter-override-both-annotations', dict(case, parameter=q.name),
                       'Parameter %s .replace(annotation=\'RAW\', upgraded_annotation=<MARK>) has annotation %r and upgraded annotation %r' % (q, r.annotation, r.upgraded_annotation))
    # a replaced annotation is the annotation from then on, also for evaluated()
    try:
        if ps and ps[0].replace(annotation='NEW').evaluated().annotation != 'NEW':
            stats.fail('C14/replace/annotation-then-evaluated', dict(case, parameter=ps[0].name),
                       'Parameter %s .replace(annotation=\'NEW\').evaluated() is %s' % (ps[0], ps[0].replace(annotation='NEW').evaluated()))
        others = [q.replace(annotation=q.empty) for q in ps]      # (so that only the return annotation is evaluated)
        r1 = s.replace(parameters=others, return_annotation='NEWRET').evaluated()
        r2 = s.replace(parameters=others, return_annotation=s.empty).evaluated()
        back = [q.name for q in r2.parameters.values() if q.annotation is not q.empty]
        if back:
            stats.fail('C14/replace/annotation-removed-then-evaluated', dict(case, parameter=back[0]),
                       '%s: every parameter replaced by .replace(annotation=empty); evaluated() gives %s -- the annotation of %s is back' % (s, r2, back[0]))
        if r1.return_annotation != 'NEWRET' or r2.return_annotation is not s.empty:
            stats.fail('C14/replace/return-annotation-then-evaluated', case,
                       '%s: replace(return_annotation=\'NEWRET\').evaluated() -> %r, replace(return_annotation=empty).evaluated() -> %r' % (
                           s, r1.return_annotation, r2.return_annotation))
    except Exception as e:
        stats.fail('C14/replace/annotation-then-evaluated-raised-%s' % type(e).__name__, case, '%s: evaluated() after replacing the annotations raised %s: %s' % (s, type(e).__name__, e))
    try:
        ev = s.evaluated()
    except Exception:
        return      # annotations that cannot be evaluated: evaluated() may say so
    if type(ev) is not type(s):
        stats.fail('C14/replace/evaluated-type', case, '%s.evaluated() is a %s' % (s, type(ev).__name__))


# sources of signatures ----------------------------------------------------------------

GLOBS = {'T': type('T', (), {})}


def universe_sigs(spec, mode, future, twin=False):
    """Real function with decorations -> retrieved signature."""
    from sigtools import signatures
    import __future__
    ps = []
    for i, p in enumerate(spec):
        d = None if p.default is None else (repr('d_' + p.name) if i % 2 else str(10 + i))
        a = ['1', "'x'", 'int', 'T'][i % 4] if (mode == 2 or (mode == 1 and i % 2 == 0)) else None
        if mode == 3:
            # postponed annotations that cannot be evaluated (names only imported for type checkers)
            a = ['Missing', 'also.missing', 'T'][i % 3]
        if mode == 4:
            # ... because evaluation raises something else than NameError (a class that is generic only in its stub file,
            # an attribute that only exists for the type checker)
            a = ['T[int]', 'T.only_in_stubs', 'T'][i % 3]
        if mode == 5:
            # postponed annotations that build a new object every time they are evaluated: an object still equals itself
            a = ['object()', '(lambda v: v)', 'float("nan")'][i % 3]
        ps.append(p._replace(default=d, ann=a))
    ret = {0: '', 1: " -> 'ret'", 2: ' -> T', 3: ' -> MissingToo', 4: ' -> T[str]', 5: ' -> object()'}[mode]
    src = 'def f(%s)%s:\n    return 0\n' % (universe.spec_text(tuple(ps)), ret)
    g = realfn.load(src, dict(GLOBS), register=False, flags=__future__.annotations.compiler_flag if future else 0)
    if twin:
        return signatures.signature(g['f']), signatures.signature(g['f'])
    return signatures.signature(g['f'])


def shard_universe(arg):
    specs, = arg
    st = Stats()
    for spec in specs:
        for mode, future in ((0, False), (1, False), (2, False), (2, True), (3, True), (4, True), (5, True)):
            sig, again = universe_sigs(spec, mode, future, twin=True)
            # (mode 5: whether two separate retrievals are equal is not pinned down -- each evaluation gives another object)
            check_signature_object(sig, 'universe/mode%d%s' % (mode, '/postponed' if future else ''), st, enum=True, twin=again if mode != 5 else None)
    return st


def shard_algebra(arg):
    start, step, count = arg
    c15._init()
    st = Stats()
    U = c15._U2
    n = len(U)
    x = start
    for c in range(count):
        x = (x + step) % (n * n)
        i, j = divmod(x, n)
        a, b = U[i], U[j]
        sigs = [realfn.sig_of(a, 'f0'), realfn.sig_of(b, 'f1')]
        op = ('merge', 'embed', 'mask', 'forwards')[c % 4]
        args = {'merge': {}, 'embed': {'use_varargs': True, 'use_varkwargs': True},
                'mask': {'n': c % 2, 'names': [], 'flags': {}}, 'forwards': {'n': c % 2, 'names': [], 'flags': {}}}[op]
        r, exc = c15.apply_op(op, sigs if op != 'mask' else sigs[:1], args)
        if r is not None:
            check_signature_object(r, 'algebra/' + op, st)
    return st


def shard_discovery(arg):
    pairs, = arg
    import sigtools
    st = Stats()
    for so, si in pairs:
        parts = [x for x in ('*args' if any(p.kind == VP for p in so) else '', '**kwargs' if any(p.kind == VK for p in so) else '') if x]
        src = 'def callee(%s):\n    return 0\n\ndef wrapper(%s):\n    return callee(%s)\n' % (universe.spec_text(si), universe.spec_text(so), ', '.join(parts))
        g = realfn.load(src)
        try:
            check_signature_object(sigtools.signature(g['wrapper']), 'discovery', st)
        finally:
            realfn.unload(g)
    return st


def st_case():
    from hypothesis import strategies as st
    return st.tuples(universe.st_spec(('a', 'b', 'c', 'd', 'e'), 5, ('args',), ('kwargs',)), st.sampled_from([0, 1, 2, 3, 4]), st.booleans())


def check_hyp(case, stats):
    spec, mode, future = case
    sig, again = universe_sigs(spec, mode, (future and mode == 2) or mode in (3, 4), twin=True)
    check_signature_object(sig, 'hypothesis/mode%d' % mode, stats, twin=again)


def shard_hyp(arg):
    seed, n = arg
    st = Stats()
    hyp_search(st_case(), check_hyp, st, n, seed)
    return st


def run(ctx):
    total = Stats()
    U3 = universe.enum_specs(('a', 'b', 'c'), 3, ('args',), ('kwargs',))
    specs = ctx.stride(U3, ctx.pick(0.05, 1.0))
    total.merge(ctx.pmap(shard_universe, [(specs[i::64],) for i in range(64) if specs[i::64]]))
    if not ctx.quick:
        total.exhaustive['signatures of the <=3-named universe x 4 decorations'] = len(U3) * 4
    na = ctx.pick(3000, 60000)
    total.merge(ctx.pmap(shard_algebra, [(ctx.seed * 7919 + s * 104729, 1000003 + 2 * s, na // 32) for s in range(32)]))
    outs = [s for s in universe.enum_specs(('a', 'b'), 2, ('args',), ('kwargs',)) if any(p.kind in (VP, VK) for p in s)]
    inns = universe.enum_specs(('x', 'y'), 2, ('args',), ('kwargs',))
    pairs = ctx.stride([(o, i) for o in outs for i in inns], ctx.pick(0.01, 0.2))
    total.merge(ctx.pmap(shard_discovery, [(pairs[i::32],) for i in range(32) if pairs[i::32]]))
    nh = ctx.pick(800, 12000)
    total.merge(ctx.pmap(shard_hyp, [(s, nh // 16) for s in ctx.shard_seeds(16)]))
    return total


def replay(case, stats):
    # replay files of this check carry the signature text and origin; rebuild through support-free path
    from sigtools import signatures
    import __future__
    src = 'def f%s:\n    return 0\n' % case['signature']
    origin = case.get('origin', 'replay')
    future = 'postponed' in origin or 'mode3' in origin or 'mode4' in origin or 'mode5' in origin
    if future:
        # the signature text shows postponed annotations as quoted strings
        import re
        src = re.sub(r"(:|->) '([^']*)'", r'\1 \2', src)
    g = realfn.load(src, dict(GLOBS, **{'ret': 'ret'}), register=False, flags=__future__.annotations.compiler_flag if future else 0)
    check_signature_object(signatures.signature(g['f']), origin, stats, twin=signatures.signature(g['f']) if 'mode5' not in origin else None)
