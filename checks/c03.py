"""C03 -- mask: exact residual signature, order independence, composition, hide_* flags.

Oracles (see DESIGN.md 2/C03):
 (a) exactness   for every non-colliding shape (m, K), K disjoint from names:
                 accepts(mask(sig, n, *names), (m, K))  <=>  accepts(sig, (n+m, K | names))
 (b) raise-iff   ValueError <=> no (m, K) at all makes accepts(sig, (n+m, K | names)) true
 (c) order       every permutation of names gives the same parameters and sources, or all raise
 (d) laws        mask(sig, 0) == sig (parameters and sources);
                 mask(mask(sig, n), m) vs mask(sig, n+m): both raise or equal (params, sources)
 (e) flags       only ever remove parameters; hide_args leaves no positional parameter and no *args;
                 hide_kwargs no keyword-passable one and no **kwargs; hide_varargs / hide_varkwargs alone
                 give exactly the unflagged outcome minus that star parameter
 (f) existential every non-colliding shape the flagged result accepts is accepted by sig for some choice
                 of hidden arguments (hidden positional count when hide_args, hidden keyword set when
                 hide_kwargs), the named arguments being passed in any case
"""
import inspect
import itertools
import warnings

from vlib import cpbind, realfn, universe
from vlib.framework import Stats, hyp_search
from vlib.universe import Par, PO, POK, VP, KWO, VK

LEVEL = 'exploration'
RULE = ('E2: every signature of the <=3-named universe over a,b,c (1 972 signatures; thorough: all, quick: stride '
        'sample) x n in 0..len+2 x every duplicate-free tuple of names from {keyword-passable parameters, q} in every '
        'permutation, compared on 160 shapes (0..4 positionals x subsets of {a,b,c,q,zz}); composition n,m; 15 flag '
        'combinations x n x name subsets (<=2). E1: Hypothesis cases with <=5 named parameters. Non-trivial = '
        '(n>0 or names or a flag) and the outcome was compared on >=1 shape, or the call raised; distinct by '
        '(signature, n, names tuple, flags).')
ASSUMPTIONS = ['names naming a positional-only parameter are excluded (as the property states)',
               'with hide_args any number of hidden positionals may follow the n explicit ones and with hide_kwargs any hidden '
               'keyword set may join the named arguments ("for some choice of the hidden arguments")']

FOREIGN = ('q', 'zz')
KWNAMES = ('a', 'b', 'c', 'q', 'zz')
_SHAPES = None


def shapes_for(names, maxpos):
    out = []
    for m in range(maxpos + 1):
        for r in range(len(names) + 1):
            for K in itertools.combinations(names, r):
                out.append((m, frozenset(K)))
    return out


def sources_view(sig):
    """Provenance as comparable plain data (callables by identity)."""
    src = sig.sources
    return (tuple(sorted((k, tuple(id(f) for f in v)) for k, v in src.items() if k != '+depths')),
            tuple(sorted((id(f), d) for f, d in src.get('+depths', {}).items())))


def canon_params(sig):
    """Parameter list up to the order of keyword-only parameters (which neither Python's call
    semantics nor inspect.Signature.__eq__ consider significant)."""
    ps = universe.spec_from_sig(sig)
    return (tuple(p for p in ps if p.kind != KWO), tuple(sorted(p for p in ps if p.kind == KWO)))


def full_view(sig):
    return (canon_params(sig), sources_view(sig))


_CRASHES = []


def do_mask(sig, n, names, flags=None):
    from sigtools import signatures
    try:
        return signatures.mask(sig, n, *names, **(flags or {}))
    except ValueError:
        return None
    except Exception as e:
        # mask only ever raises ValueError: anything else is recorded (flushed by the caller) and counts as a raise
        _CRASHES.append((type(e).__name__, 'mask(%s, %d%s%s) raised %s: %s' % (
            sig, n, ''.join(', %r' % x for x in names), ''.join(', %s=True' % k for k, v in (flags or {}).items() if v), type(e).__name__, e),
            {'op': 'mask', 'spec': [list(p) for p in universe.spec_from_sig(sig)], 'n': n, 'names': list(names), 'flags': dict(flags or {})}))
        return None


def flush_crashes(stats):
    while _CRASHES:
        t, msg, case = _CRASHES.pop()
        stats.fail('C03/raised-%s' % t, case, msg)


def feasible(b, view, n, names):
    """Could sig be passed n positionals and the given named arguments at all?"""
    L = len(view)
    kw = [x for x in cpbind.kwpassable(view) if x not in names]
    nameset = tuple(names)
    for m in range(L + 2):
        for r in range(len(kw) + 1):
            for K in itertools.combinations(kw, r):
                if b.accepts(n + m, K + nameset):
                    return True
    return False


def check_plain(spec, sig, n, names_set, perms, shapes, stats, enum):
    """(a), (b), (c) for one (sig, n, set of names) over the given permutations."""
    view = universe.spec_view(spec)
    b = cpbind.binder(view)
    names_set = tuple(names_set)
    results = []
    for perm in perms:
        stats.case()
        r = do_mask(sig, n, perm)
        results.append((perm, r))
    case = lambda perm: {'op': 'mask', 'spec': list(map(list, spec)), 'n': n, 'names': list(perm), 'flags': {}}
    desc = lambda perm: 'mask((%s), %d%s)' % (universe.spec_text(spec), n, ''.join(', %r' % x for x in perm))
    # what mask does with the parameters does not depend on the provenance the signature carries: one built from its parameters
    # alone (empty map), one whose map lacks entries, a plain inspect.Signature (deprecated, still accepted)
    p0, r0 = results[0]
    for label, variant in (('an UpgradedSignature built from the parameters alone', lambda: sig.replace(sources={})),
                           ('provenance without the first entry', lambda: sig.replace(sources=dict(list(sig.sources.items())[1:]))),
                           ('a plain inspect.Signature', lambda: inspect.Signature(
                               [inspect.Parameter(q.name, q.kind, default=q.default, annotation=q.annotation) for q in sig.parameters.values()]))):
        stats.case()
        with warnings.catch_warnings():
            warnings.simplefilter('ignore')
            rv = do_mask(variant(), n, p0)
        if (rv is None) != (r0 is None) or (rv is not None and canon_params(rv) != canon_params(r0)):
            stats.fail('C03/hand-built-provenance', dict(case(p0), variant=label), '%s -> %s, on %s -> %s' % (
                desc(p0), r0 if r0 is not None else 'ValueError', label, rv if rv is not None else 'raises'))
            break
    # (c) order independence
    fv = [(perm, None if r is None else full_view(r)) for perm, r in results]
    if len(set(v for _, v in fv)) > 1:
        p0, v0 = fv[0]
        p1, v1 = next((p, v) for p, v in fv if v != v0)
        kind = 'raise-vs-return' if (v0 is None) != (v1 is None) else \
            'params' if v0[0] != v1[0] else 'sources'
        stats.fail('C03/order/%s' % kind, dict(case(p1), other=list(p0)),
                   '%s -> %s but %s -> %s' % (desc(p0), results[0][1] if v0 else 'ValueError',
                                              desc(p1), dict(results)[p1] if v1 else 'ValueError'))
    feas = feasible(b, view, n, names_set)
    nontriv = bool(n or names_set)
    seen_views = set()
    for perm, r in results:
        key = None if r is None else universe.sig_view(r)
        if r is None:
            stats.cls('plain/raised')
            if nontriv:
                stats.nontriv_enum() if enum else stats.nontriv((universe.spec_text(spec), n, perm))
            if feas:
                stats.fail('C03/raise-but-feasible', case(perm), '%s raised ValueError although sig accepts such calls' % desc(perm))
            continue
        stats.cls('plain/returned')
        if not feas:
            stats.fail('C03/return-but-infeasible', case(perm), '%s -> %s although sig cannot be passed those arguments' % (desc(perm), r))
        if nontriv:
            stats.nontriv_enum() if enum else stats.nontriv((universe.spec_text(spec), n, perm))
            stats.sample('plain/returned', {'call': desc(perm), 'result': str(r)})
        if key in seen_views:
            continue
        seen_views.add(key)
        rb = cpbind.binder(key)
        kp = cpbind.kwpassable(key)
        alln = set(x for x, k, d in view)
        nameset = frozenset(names_set)
        for m, K in shapes:
            if K & nameset:
                continue
            if not all((k in kp) or (k not in alln) for k in K):
                continue
            got = rb.accepts(m, K)
            exp = b.accepts(n + m, tuple(K) + names_set)
            if got != exp:
                stats.fail('C03/%s' % ('unsound' if got else 'inexact'), dict(case(perm), shape=[m, sorted(K)]),
                           '%s -> %s %s (npos=%d, kw=%s) but sig %s the corresponding call' % (
                               desc(perm), r, 'accepts' if got else 'rejects', m, sorted(K), 'accepts' if exp else 'rejects'))
                break


def check_laws(spec, sig, stats):
    L = len(spec)
    stats.case()
    r0 = do_mask(sig, 0, ())
    if r0 is None or full_view(r0) != full_view(sig):
        stats.fail('C03/law/mask0', {'op': 'mask0', 'spec': list(map(list, spec))},
                   'mask((%s), 0) -> %s differs from sig in %s' % (universe.spec_text(spec), r0,
                                                                  'parameters' if r0 is None or canon_params(r0) != canon_params(sig) else 'sources'))
    for n in range(L + 3):
        x = do_mask(sig, n, ())
        for m in range(L + 3 - n):
            stats.case()
            y = do_mask(x, m, ()) if x is not None else None
            z = do_mask(sig, n + m, ())
            stats.cls('compose/%s' % ('raised' if z is None else 'returned'))
            if n and m:
                stats.nontriv_enum()
            yv = None if y is None else full_view(y)
            zv = None if z is None else full_view(z)
            if yv != zv:
                stats.fail('C03/law/compose', {'op': 'compose', 'spec': list(map(list, spec)), 'n': n, 'm': m},
                           'mask(mask((%s), %d), %d) -> %s but mask(sig, %d) -> %s' % (
                               universe.spec_text(spec), n, m, y if y is not None else 'ValueError', n + m, z if z is not None else 'ValueError'))


FLAG_NAMES = ('hide_args', 'hide_kwargs', 'hide_varargs', 'hide_varkwargs')


def check_flagged(spec, sig, n, names, fl, shapes, stats, enum):
    """(e), (f) for one flagged call. names: tuple."""
    stats.case()
    view = universe.spec_view(spec)
    b = cpbind.binder(view)
    ha, hk, hva, hvk = fl
    flags = dict(zip(FLAG_NAMES, fl))
    res = do_mask(sig, n, names, flags)
    case = {'op': 'mask', 'spec': list(map(list, spec)), 'n': n, 'names': list(names), 'flags': flags}
    desc = 'mask((%s), %d%s, %s)' % (universe.spec_text(spec), n, ''.join(', %r' % x for x in names),
                                     ', '.join('%s=True' % k for k, v in flags.items() if v))
    fkey = ''.join(k[5] if k in ('hide_args', 'hide_kwargs') else k[5:8] for k, v in flags.items() if v)
    if enum:
        stats.nontriv_enum()
    else:
        stats.nontriv((universe.spec_text(spec), n, names, fl))
    if not ha and not hk:
        base = do_mask(sig, n, names)
        if (base is None) != (res is None):
            stats.fail('C03/flags/star-only-raise', case, '%s %s but the unflagged call %s' % (
                desc, 'raised' if res is None else 'returned %s' % res, 'raised' if base is None else 'returned %s' % base))
            return
        if res is not None:
            exp = tuple(p for p in universe.spec_from_sig(base) if not (hva and p.kind == VP) and not (hvk and p.kind == VK))
            if exp != universe.spec_from_sig(res):
                stats.fail('C03/flags/star-only-params', case, '%s -> %s, unflagged -> %s' % (desc, res, base))
    if res is None:
        stats.cls('flagged/raised')
        return
    stats.cls('flagged/returned')
    stats.sample('flagged/' + fkey, {'call': desc, 'result': str(res)})
    rview = universe.sig_view(res)
    orig = {p.name: p for p in spec}
    for name, kind, d in rview:
        if name not in orig:
            stats.fail('C03/flags/new-parameter', case, '%s -> %s has a parameter sig lacks' % (desc, res))
    kinds = [k for _, k, _ in rview]
    if (ha or hva) and VP in kinds:
        stats.fail('C03/flags/varargs-left', case, '%s -> %s' % (desc, res))
    if ha and (PO in kinds or POK in kinds):
        stats.fail('C03/flags/positional-left', case, '%s -> %s' % (desc, res))
    if (hk or hvk) and VK in kinds:
        stats.fail('C03/flags/varkwargs-left', case, '%s -> %s' % (desc, res))
    if hk and (POK in kinds or KWO in kinds):
        stats.fail('C03/flags/keyword-left', case, '%s -> %s' % (desc, res))
    # (f) existential soundness
    rb = cpbind.binder(rview)
    kp = cpbind.kwpassable(rview)
    alln = set(x for x, k, d in view)
    L = len(view)
    sigkw = [x for x in cpbind.kwpassable(view)] + ['qq']
    nameset = frozenset(names)
    for m, K in shapes:
        if K & nameset:
            continue
        if not all((k in kp) or (k not in alln) for k in K):
            continue
        if not rb.accepts(m, K):
            continue
        ok = False
        for total in (range(n, L + 3) if ha else (n,)):      # the n explicit positionals are passed whatever is hidden (F23)
            extra = [k for k in sigkw if k not in K] if hk else []
            base_names = tuple(names)      # named arguments are passed whatever is hidden (F19)
            for r in range(len(extra) + 1):
                for K2 in itertools.combinations(extra, r):
                    if b.accepts(m + total, tuple(set(K) | set(K2) | set(base_names))):
                        ok = True
                        break
                if ok:
                    break
            if ok:
                break
        if not ok:
            stats.fail('C03/flags/existential/%s' % fkey, dict(case, shape=[m, sorted(K)]),
                       '%s -> %s accepts (npos=%d, kw=%s) but sig accepts it for no choice of hidden arguments' % (desc, res, m, sorted(K)))
            break


def cand_names(spec, foreign=('q',)):
    """Names that may be passed by keyword: keyword-passable parameters, a foreign name, and -- when **kwargs can
    absorb it -- the spelling of the *args parameter (it is just another keyword then)."""
    out = [p.name for p in spec if p.kind in (POK, KWO)] + list(foreign)
    if any(p.kind == VK for p in spec):
        out += [p.name for p in spec if p.kind == VP]
    return out


def work_sig(spec, stats, shapes, enum=True):
    sig = realfn.sig_of(spec)
    L = len(spec)
    cand = cand_names(spec)
    for n in range(L + 3):
        for r in range(len(cand) + 1):
            for combo in itertools.combinations(cand, r):
                check_plain(spec, sig, n, combo, list(itertools.permutations(combo)), shapes, stats, enum)
    check_laws(spec, sig, stats)
    flush_crashes(stats)
    for n in range(L + 2):
        for r in range(min(len(cand), 2) + 1):
            for names in itertools.combinations(cand, r):
                for fl in itertools.product((False, True), repeat=4):
                    if any(fl):
                        check_flagged(spec, sig, n, names, fl, shapes, stats, enum)
    flush_crashes(stats)


def shard(arg):
    specs, = arg
    global _SHAPES
    if _SHAPES is None:
        _SHAPES = shapes_for(KWNAMES, 4)
    st = Stats()
    for spec in specs:
        work_sig(spec, st, _SHAPES)
    return st


HN = ('a', 'b', 'c', 'd', 'e')


def st_case():
    from hypothesis import strategies as st

    @st.composite
    def build(draw):
        spec = draw(universe.st_spec(HN, 5, ('args',), ('kwargs',)))
        n = draw(st.integers(0, len(spec) + 2))
        cand = cand_names(spec, FOREIGN)
        names = tuple(draw(st.permutations(cand)))[:draw(st.integers(0, min(4, len(cand))))]
        fl = tuple(draw(st.booleans()) if draw(st.booleans()) else False for _ in range(4)) if draw(st.booleans()) else (False,) * 4
        return {'spec': spec, 'n': n, 'names': names, 'fl': fl}
    return build()


def check_hyp(case, stats):
    spec = case['spec']
    sig = realfn.sig_of(spec)
    knames = tuple(p.name for p in spec if p.kind in (PO, POK, KWO))[:5] + FOREIGN
    shapes = _hyp_shapes(knames, cpbind.poscap(universe.spec_view(spec)) + 1)
    names = tuple(case['names'])
    if any(case['fl']):
        check_flagged(spec, sig, case['n'], names, tuple(case['fl']), shapes, stats, False)
    else:
        perms = [names]
        if len(names) > 1:
            perms.append(tuple(reversed(names)))
            perms.append(names[1:] + names[:1])
        check_plain(spec, sig, case['n'], tuple(sorted(names)), perms, shapes, stats, False)
    flush_crashes(stats)


_hs = {}


def _hyp_shapes(names, maxpos):
    k = (names, maxpos)
    if k not in _hs:
        if len(_hs) > 100:
            _hs.clear()
        out = []
        for m in range(maxpos + 1):
            for r in range(4):
                for K in itertools.combinations(names, r):
                    out.append((m, frozenset(K)))
        _hs[k] = out
    return _hs[k]


def shard_hyp(arg):
    seed, n = arg
    st = Stats()
    hyp_search(st_case(), check_hyp, st, n, seed)
    return st


def run(ctx):
    U = universe.enum_specs(('a', 'b', 'c'), 3, ('args',), ('kwargs',))
    total = Stats()
    n, bad = cpbind.selfcheck(ctx.stride(U, ctx.pick(0.03, 0.5)))
    if bad:
        from vlib.framework import HarnessError
        raise HarnessError('binding model disagrees with real defs: %r' % bad[:3])
    total.extra['selfcheck_comparisons'] = n
    specs = ctx.stride(U, ctx.pick(0.12, 1.0))
    chunks = [(specs[i::128],) for i in range(128)]
    total.merge(ctx.pmap(shard, [c for c in chunks if c[0]]))
    if not ctx.quick:
        total.exhaustive['signatures of the <=3-named universe x n x name tuples (all permutations) x flags'] = len(U)
    else:
        total.exhaustive['stride sample of the <=3-named universe'] = len(specs)
    nh = ctx.pick(3200, 48000)
    total.merge(ctx.pmap(shard_hyp, [(s, nh // 16) for s in ctx.shard_seeds(16)]))
    return total


def replay(case, stats):
    spec = tuple(Par(*p) for p in case['spec'])
    sig = realfn.sig_of(spec)
    knames = tuple(p.name for p in spec if p.kind in (PO, POK, KWO))[:5] + FOREIGN
    shapes = _hyp_shapes(knames, cpbind.poscap(universe.spec_view(spec)) + 1)
    if case['op'] == 'mask0' or case['op'] == 'compose':
        check_laws(spec, sig, stats)
        return
    names = tuple(case['names'])
    fl = tuple(bool(case['flags'].get(k)) for k in FLAG_NAMES)
    if any(fl):
        check_flagged(spec, sig, case['n'], names, fl, shapes, stats, False)
    else:
        check_plain(spec, sig, case['n'], tuple(sorted(names)), list(itertools.permutations(names)), shapes, stats, False)
