"""C13 -- wrappers.decorator / wrapper_decorator / Combination are call-transparent.

Domain: stacks (depth 1..3) of generated decorator functions (func, <own positional>, *args,
<own keyword-only>, **kwargs) made into decorators with wrappers.decorator or
wrappers.wrapper_decorator(n, *names) (the written inner call matching the declaration),
applied to functions from the signature universe placed as function, method (accessed on
the instance and on the class) or staticmethod; wrappers.Combination of 1..3 functions with
consistently used parameter names (also nested Combinations).

Oracle:
 (a) differential: for every call shape, calling the decorated object gives exactly the
     outcome (returned value, or exception type and payload) of the hand-written composition
     deco(plain_function, *a, **k); a user exception raised by the innermost function comes
     out unchanged;
 (b) coherence: every non-colliding shape accepted by sigtools.signature(obj) -- and by
     inspect.signature(obj) where inspect is told (the object carries __signature__) --
     executes without TypeError;
 (c) binding: the signature on the instance is the signature on the class minus exactly one
     parameter, the first one of the wrapped function (the very first parameter when no
     decorator of the stack has positional parameters of its own);
 (d) wrappers.wrappers(obj) lists the decorator functions outermost first.
"""
import itertools

from vlib import cpbind, realfn, universe
from vlib.framework import Stats, hyp_search
from vlib.universe import Par, PO, POK, VP, KWO, VK

LEVEL = 'exploration'
RULE = ('non-trivial: a decorator of the stack has >=1 parameter of its own and >=1 shape accepted by the reported signature passes it '
        '(executed against the hand-written composition), or a Combination of >=2 functions; distinct by (placement, form, stack '
        'of decorator kinds and own parameters, wrapped signature)')
ASSUMPTIONS = ['"removes exactly the first parameter" is read as: the first parameter of the wrapped function (decorators with positional '
               'parameters of their own put those before it)',
               'inspect.signature is held to the coherence clause only for objects carrying __signature__ (Combination leaves inspect uninformed by design)']

FNAMES = ('x', 'y', 'z')


def st_case():
    from hypothesis import strategies as st

    @st.composite
    def deco(draw, i):
        npos = draw(st.sampled_from([0, 0, 1, 1, 2]))
        nkw = draw(st.sampled_from([0, 1, 1, 2]))
        pos = []
        seen_default = False
        for j in range(npos):
            d = draw(st.booleans()) or seen_default
            seen_default = seen_default or d
            pos.append(['p%d%d' % (i, j), '1' if d and draw(st.booleans()) else ('1' if seen_default else None)])
        # keep Python's rule: required positional may not follow a defaulted one
        sd = False
        for p in pos:
            if p[1] is not None:
                sd = True
            elif sd:
                p[1] = '1'
        kwo = [['k%d%d' % (i, j), draw(st.sampled_from([None, '2']))] for j in range(nkw)]
        kind = draw(st.sampled_from(['decorator', 'decorator', 'decorator', 'wrapper_decorator', 'wrapper_decorator', 'classic']))
        if kind == 'classic':
            # a hand-written functools.wraps pass-through layer between (or around) the sigtools ones
            pos, kwo = [], []
        return {'kind': kind, 'pos': pos, 'kwo': kwo, 'n': 0, 'names': []}

    @st.composite
    def build(draw):
        what = draw(st.sampled_from(['stack'] * 4 + ['combination']))
        if what == 'combination':
            k = draw(st.integers(1, 3))
            roles = {'u': (POK, draw(st.booleans())), 'v': (POK, draw(st.booleans())),
                     'a': (KWO, draw(st.booleans())), 'b': (KWO, draw(st.booleans())), 'c': (KWO, True), 'self': (KWO, True)}
            # (a combined function may well have a parameter called self)
            third = draw(st.sampled_from(['c', 'c', 'self']))
            firsts = draw(st.sampled_from([['arg'] * 3, ['value'] * 3, ['arg', 'value', 'item'], ['value', 'value', 'arg']]))
            funcs = []
            for i in range(k):
                plen = draw(st.integers(0, 2))
                spec = [[firsts[i], POK, None]]
                dflt = False
                for nm in ('u', 'v')[:plen]:
                    d = roles[nm][1] or dflt
                    dflt = dflt or d
                    spec.append([nm, POK, '1' if d else None])
                star = draw(st.sampled_from(['', '', 'args']))
                if star:
                    spec.append(['args', VP, None])
                for nm in ('a', 'b', third):
                    if draw(st.booleans()):
                        spec.append([nm, KWO, '1' if roles[nm][1] else None])
                if draw(st.integers(0, 3)) == 0:
                    spec.append(['kwargs', VK, None])
                funcs.append(spec)
            return {'what': 'combination', 'funcs': funcs, 'nest': draw(st.booleans()),
                    'forwarders': [draw(st.integers(0, 3)) == 0 for _ in range(k)]}
        depth = draw(st.integers(1, 3)) if draw(st.booleans()) else 1
        decos = [draw(deco(i)) for i in range(depth)]
        spec = draw(universe.st_spec(FNAMES, max_named=3, p_star=0.2))
        placement = draw(st.sampled_from(['function', 'function', 'method', 'method', 'staticmethod']))
        # wrapper_decorator: declared consumption of the wrapped function's leading parameters
        for dd in decos:
            if dd['kind'] == 'wrapper_decorator' and draw(st.booleans()):
                dd['n'] = draw(st.integers(0, 1))
        return {'what': 'stack', 'decos': decos, 'spec': [list(p) for p in spec], 'placement': placement,
                'selfname': draw(st.sampled_from(['self', 'self', 'this'])),
                'stepwise': draw(st.integers(0, 2)) == 0, 'falsy': draw(st.integers(0, 2)) == 0,
                'wrapped': draw(st.sampled_from(['plain', 'plain', 'plain', 'forwards_to', 'forwards_to_emulate', 'kwoargs', 'own_signature']))}
    return build()


def normalise(case):
    """wrapper_decorator(n): the n constants consume leading positional parameters of whatever
    the decorator wraps; only the innermost layer may do so and only within capacity (and never
    the method's self)."""
    if case['what'] != 'stack':
        return case
    spec = [Par(*p) for p in case['spec']]
    cap = sum(1 for p in spec if p.kind in (PO, POK))
    for i, dd in enumerate(case['decos']):
        inner_most = i == len(case['decos']) - 1
        if dd['kind'] != 'wrapper_decorator' or not inner_most or case['placement'] == 'method':
            dd['n'] = 0
        dd['n'] = min(dd['n'], cap)
    # hand-written pass-through layers: not on methods (Python binds the outermost plain function itself, so the instance
    # travels through every layer as an ordinary first argument -- another composition than the one sigtools' descriptors
    # implement), and never as the only layers
    if case['placement'] == 'method' or all(dd['kind'] == 'classic' for dd in case['decos']):
        for dd in case['decos']:
            if dd['kind'] == 'classic':
                dd['kind'] = 'decorator'
    case.setdefault('wrapped', 'plain')
    if case['placement'] != 'function' or (case['wrapped'] == 'kwoargs' and not any(p.kind == POK for p in spec)):
        case['wrapped'] = 'plain'
    if case['wrapped'] != 'plain':
        for dd in case['decos']:
            dd['n'] = 0
    return case


def render(case):
    pre = 'import functools\nfrom sigtools import wrappers\nLOG = []\nRAISE = [False]\nclass UserErr(Exception):\n    pass\n'
    if case['what'] == 'combination':
        src = pre
        for i, spec in enumerate(case['funcs']):
            sp = tuple(Par(*p) for p in spec)
            loc = ', '.join('%r: %s' % (p.name, p.name) for p in sp[1:])
            fwd = (case.get('forwarders') or [False] * len(case['funcs']))[i]
            src += 'def %sf%d(%s):\n    if RAISE[0] and %d == %d:\n        raise UserErr(%d)\n    return (%s, %d, {%s})\n' % (
                '_g' if fwd else '', i, universe.spec_text(sp), i, len(case['funcs']) - 1, i, sp[0].name, i, loc)
            if fwd:
                # a member whose effective signature comes from forwarding its star parameters
                src += 'def f%d(%s, *args, **kwargs):\n    return _gf%d(%s, *args, **kwargs)\n' % (i, sp[0].name, i, sp[0].name)
        names = ['f%d' % i for i in range(len(case['funcs']))]
        if case['nest'] and len(names) >= 2:
            src += 'TARGET = wrappers.Combination(wrappers.Combination(%s), %s)\n' % (', '.join(names[:-1]), names[-1])
        else:
            src += 'TARGET = wrappers.Combination(%s)\n' % ', '.join(names)
        src += 'def REF(arg, *args, **kwargs):\n' + ''.join('    arg = %s(arg, *args, **kwargs)\n' % n for n in names) + '    return arg\n'
        src += 'FUNCS = [%s]\n' % ', '.join(names)
        return src
    spec = tuple(Par(*p) for p in case['spec'])
    src = pre
    for i, dd in enumerate(case['decos']):
        own = tuple([Par('func', POK)] + [Par(n, POK, d) for n, d in dd['pos']] + [Par('args', VP)] +
                    [Par(n, KWO, d) for n, d in dd['kwo']] + [Par('kwargs', VK)])
        loc = ', '.join('%r: %s' % (n, n) for n, d in dd['pos'] + dd['kwo'])
        consts = ''.join('%d, ' % (700 + j) for j in range(dd['n']))
        if dd.get('same_as_previous') and i > 0:
            # the very same decorator applied twice in a row
            src += 'D%d = D%d\nd%d = d%d\n' % (i, i - 1, i, i - 1)
            continue
        if dd['kind'] == 'classic':
            src += ('def D%d(f):\n    @functools.wraps(f)\n    def _classic%d(*args, **kwargs):\n        return f(*args, **kwargs)\n    return _classic%d\n' % (i, i, i))
            continue
        body = 'def d%d(%s):\n    return ("d%d", {%s}, func(%s*args, **kwargs))\n' % (i, universe.spec_text(own), i, loc, consts)
        src += body
        if dd['kind'] == 'decorator':
            src += 'D%d = wrappers.decorator(d%d)\n' % (i, i)
        elif dd['n']:
            src += 'D%d = wrappers.wrapper_decorator(%d)(d%d)\n' % (i, dd['n'], i)
        else:
            src += 'D%d = wrappers.wrapper_decorator(d%d)\n' % (i, i)
    decos = ''.join('@D%d\n' % i for i in range(len(case['decos'])))
    rec = ', '.join('%r: %s' % (p.name, p.name) for p in spec)
    if case['placement'] == 'function':
        wk = case.get('wrapped', 'plain')
        if wk in ('forwards_to', 'forwards_to_emulate'):
            # the decorated function itself carries a declared forger
            src += 'from sigtools import specifiers\n'
            src += 'def tail(%s):\n    if RAISE[0]:\n        raise UserErr(7)\n    return ("t", {%s})\n' % (universe.spec_text(spec), rec)
            src += '@specifiers.forwards_to_function(tail%s)\ndef plain(o1, *args, **kwargs):\n    return ("f", {"o1": o1}, tail(*args, **kwargs))\n' % (
                ', emulate=True' if wk == 'forwards_to_emulate' else '')
        else:
            src += 'def plain(%s):\n    if RAISE[0]:\n        raise UserErr(7)\n    return ("f", {%s})\n' % (universe.spec_text(spec), rec)
            if wk == 'kwoargs':
                src += 'from sigtools import modifiers\nplain = modifiers.kwoargs(%r)(plain)\n' % [p.name for p in spec if p.kind == POK][-1]
            if wk == 'own_signature':
                # the decorated function states its (own, true) signature explicitly
                src += 'import inspect as _inspect\nplain.__signature__ = _inspect.signature(plain)\n'
        # stepwise: the signature of every intermediate layer is retrieved before the next decorator is applied
        peek = ('import sigtools as _st, inspect as _ins\nfor _get in (_st.signature, _ins.signature):\n    try:\n        _get(target)\n'
                '    except Exception:\n        pass\n') if case.get('stepwise') else ''
        src += 'target = plain\n' + ''.join('target = D%d(target)\n%s' % (i, peek) for i in reversed(range(len(case['decos']))))
        src += 'TARGETS = [("function", target, None)]\n'
    else:
        has_po = any(p.kind == PO for p in spec)
        if case['placement'] == 'method':
            sp = (Par(case['selfname'], PO if has_po else POK),) + spec
            rec2 = "'self': %s.tag, " % case['selfname'] + rec
        else:
            sp = spec
            rec2 = rec
        fn = 'def plain(%s):\n    if RAISE[0]:\n        raise UserErr(7)\n    return ("f", {%s})\n' % (universe.spec_text(sp), rec2)
        src += fn
        stat = '@staticmethod\n' if case['placement'] == 'staticmethod' else ''
        # falsy: instances that are false in a boolean context (an empty container) are instances all the same
        falsy = '    def __len__(self):\n        return 0\n' if case.get('falsy') else ''
        src += 'class K(object):\n    tag = "inst"\n' + falsy + ''.join('    ' + l for l in (stat + decos + fn.replace('def plain(', 'def m(')).splitlines(True))
        # instances are value objects (all equal, same hash); the method was bound on an earlier, equal instance before and that
        # bound object is still held when it is bound on INST
        src += ('K.__eq__ = lambda self, other: isinstance(other, K)\nK.__hash__ = lambda self: 1\n'
                'EARLIER = K()\nEARLIER.tag = "earlier"\nHELD = EARLIER.m\n')
        src += 'INST = K()\nTARGETS = [("instance", INST.m, None), ("class", K.m, %r)]\n' % (case['selfname'] if case['placement'] == 'method' else None)
    src += 'DECOS = [%s]\n' % ', '.join('d%d' % i for i, dd in enumerate(case['decos']) if dd['kind'] != 'classic')
    return src


def reference(g, case, form):
    """The hand-written composition for a target form."""
    import functools
    ds = g['DECOS']
    base = g['plain']
    if case['placement'] == 'method' and form == 'instance':
        inst = g['INST']
        base = functools.partial(g['plain'], inst)

        def base(*a, _f=g['plain'], _i=inst, **k):
            return _f(_i, *a, **k)
    f = base
    for d in reversed(ds):
        f = (lambda d, inner: (lambda *a, **k: d(inner, *a, **k)))(d, f)
    return f


def outcome(fn, args, kwargs):
    try:
        return ('value', fn(*args, **kwargs))
    except TypeError as e:
        return ('TypeError', None)
    except Exception as e:
        return (type(e).__name__, e.args)


def pview(sig):
    return [(p.name, int(p.kind), p.default is not p.empty) for p in sig.parameters.values()]


def check_case(case, stats):
    import inspect
    import sigtools
    from sigtools import specifiers, wrappers
    specifiers.as_forged.currently_computing.clear()
    stats.case()
    case = normalise(case)
    src = render(case)
    g = realfn.load(src)
    try:
        if case['what'] == 'combination':
            return check_combination(case, g, src, stats)
        spec = tuple(Par(*p) for p in case['spec'])
        sigs = {}
        own_pos = any(dd['pos'] for dd in case['decos'])
        seen = [n for dd in case['decos'] for n, d in dd['pos'] + dd['kwo']]
        shared_names = len(seen) != len(set(seen))
        if shared_names:
            stats.cls('stack/layers-share-a-parameter-name')
        for form, target, selfname in g['TARGETS']:
            ref = reference(g, case, form)
            tag = '%s/%s' % (case['placement'], form)
            try:
                R = sigtools.signature(target)
                I = inspect.signature(target)
            except Exception as e:
                if shared_names and isinstance(e, ValueError):
                    # an explicit wrapper_decorator declaration that cannot be honoured surfaces as ValueError (C07)
                    stats.cls('stack/layers-share-a-parameter-name/declaration-raises')
                    continue
                stats.fail('C13/retrieval-raised/%s/%s' % (tag, type(e).__name__), dict(case, form=form),
                           'signature retrieval of the %s target raised %s: %s\n%s' % (form, type(e).__name__, e, src))
                continue
            sigs[form] = R
            stats.cls('stack/%s/depth-%d/%s' % (tag, len(case['decos']), case.get('wrapped', 'plain')))
            fallback = False
            if case['decos'][0]['kind'] == 'classic':
                # the outermost layer is a plain function: not an object built by sigtools; held to call transparency and
                # to the wrappers list only
                fallback = True
                sigs.pop(form)
                stats.cls('stack/outermost-layer-hand-written')
            if shared_names:
                # embed cannot express two parameters of one name: discovery falls back to the outermost layer's own
                # signature (the fallback C05 and C07 allow); the call-transparency clauses still apply
                from sigtools import signatures
                try:
                    fallback = pview(R) == pview(signatures.signature(target))
                except Exception:
                    fallback = False
                if fallback:
                    stats.cls('stack/layers-share-a-parameter-name/fallback')
                    sigs.pop(form)
            # the same retrievals from a thread that never touched sigtools before
            import threading
            box = {}

            def other_thread():
                try:
                    box['v'] = (str(sigtools.signature(target)), str(inspect.signature(target)))
                except Exception as e:
                    box['v'] = repr(e)
            th = threading.Thread(target=other_thread)
            th.start()
            th.join()
            if box.get('v') != (str(R), str(I)):
                stats.fail('C13/other-thread/%s' % tag, dict(case, form=form),
                           'retrieved in a fresh thread: %r; in the main thread: %r\n%s' % (box.get('v'), (str(R), str(I)), src))
            # (d)
            got = list(wrappers.wrappers(target))
            if got != list(g['DECOS']):
                stats.fail('C13/wrappers-list/%s' % tag, dict(case, form=form),
                           'wrappers.wrappers(%s target) = %r, decorators applied (outermost first) = %r\n%s' % (form, got, g['DECOS'], src))
            rview, iview = universe.sig_view(R), universe.sig_view(I)
            rb, ib = cpbind.binder(rview), cpbind.binder(iview)
            kp = cpbind.kwpassable(rview)
            alln = set(p.name for p in spec) | {case['selfname'], 'func', 'args', 'kwargs', 'o1'}
            for dd in case['decos']:
                alln.update(n for n, d in dd['pos'] + dd['kwo'])
            pool = list(dict.fromkeys(list(kp) + sorted(n for n in alln if n not in ('func', 'args', 'kwargs')) + ['q']))[:9]
            cap = max(cpbind.poscap(rview), cpbind.poscap(iview))
            # position of self among the positional parameters of the class-accessed form
            selfidx = None
            if selfname:
                posn = [n for n, k, d in rview if k in (PO, POK)]
                selfidx = posn.index(selfname) if selfname in posn else None
            used_own = executed = 0
            own_names = set(n for dd in case['decos'] for n, d in dd['pos'] + dd['kwo'])
            failed = False
            for npos in range(cap + 2):
                for r in range(4):
                    for K in itertools.combinations(pool, r):
                        args = [100 + i for i in range(npos)]
                        if selfidx is not None and selfidx < npos:
                            args[selfidx] = g['INST']
                        elif selfname and selfidx is None and npos:
                            args[0] = g['INST']
                        kwargs = dict((k, 'k_' + k) for k in K)
                        if selfname and selfname in kwargs:
                            kwargs[selfname] = g['INST']
                        if selfname and not any(a is g['INST'] for a in args) and selfname not in kwargs:
                            continue        # the plain function needs an object with .tag as self
                        got_o = outcome(target, args, kwargs)
                        want_o = outcome(ref, args, kwargs)
                        executed += 1
                        if got_o != want_o:
                            stats.fail('C13/differential/%s' % tag, dict(case, form=form, shape=[npos, list(K)]),
                                       'calling the %s target with %d positionals and keywords %s gives %r, the hand-written composition gives %r\n%s' % (
                                           form, npos, list(K), got_o, want_o, src))
                            failed = True
                            break
                        noncoll = all((k in kp) or (k not in alln) for k in K)
                        if noncoll and rb.accepts(npos, K) and not fallback:
                            if got_o[0] == 'TypeError':
                                stats.fail('C13/incoherent/sigtools/%s' % ('layers-share-a-parameter-name' if shared_names else tag), dict(case, form=form, shape=[npos, list(K)]),
                                           'sigtools.signature(%s target) = %s accepts the non-colliding call with %d positionals and keywords %s, which raises TypeError\n%s' % (
                                               form, R, npos, list(K), src))
                                failed = True
                                break
                            if own_names & (set(K) | set(n for n, k, d in rview[:npos] if k in (PO, POK))):
                                used_own += 1
                        ikp = cpbind.kwpassable(iview)
                        if all((k in ikp) or (k not in alln) for k in K) and ib.accepts(npos, K) and got_o[0] == 'TypeError' and not fallback:
                            stats.fail('C13/incoherent/inspect/%s' % ('layers-share-a-parameter-name' if shared_names else tag), dict(case, form=form, shape=[npos, list(K)]),
                                       'inspect.signature(%s target) = %s accepts the non-colliding call with %d positionals and keywords %s, which raises TypeError\n%s' % (
                                           form, I, npos, list(K), src))
                            failed = True
                            break
                    if failed:
                        break
                if failed:
                    break
            if failed:
                continue
            # user exception propagates unchanged
            g['RAISE'][0] = True
            try:
                for npos in range(cap + 1):
                    args = [100 + i for i in range(npos)]
                    if selfidx is not None and selfidx < npos:
                        args[selfidx] = g['INST']
                    if rb.accepts(npos, ()):
                        a, b = outcome(target, args, {}), outcome(ref, args, {})
                        if a != b:
                            stats.fail('C13/exception/%s' % tag, dict(case, form=form, shape=[npos, []]),
                                       'with the innermost function raising UserErr, the %s target gives %r, the composition %r\n%s' % (form, a, b, src))
                        elif a[0] == 'UserErr':
                            stats.cls('user-exception-propagated')
            finally:
                g['RAISE'][0] = False
            stats.extra['executions'] += executed
            if used_own:
                stats.nontriv((case['placement'], form, tuple((dd['kind'], len(dd['pos']), len(dd['kwo']), dd['n']) for dd in case['decos']),
                               universe.spec_text(spec)))
                stats.sample('stack/' + tag, {'source': src.split('pass\n', 1)[1], 'sigtools': str(R), 'inspect': str(I)})
        # (c) binding
        if 'instance' in sigs and 'class' in sigs and case['placement'] == 'method':
            b_, u_ = pview(sigs['instance']), pview(sigs['class'])
            sn = case['selfname']
            if own_pos:
                # a decorator's own defaulted positionals lose their default on the class, where the
                # required self follows them (C10): compared by name and kind
                want = [p[:2] for p in u_ if p[0] != sn]
                ok = want == [p[:2] for p in b_] and len(u_) == len(b_) + 1
            else:
                want = u_[1:]
                ok = want == b_ and bool(u_) and u_[0][0] == sn
            if not ok:
                stats.fail('C13/binding/%s' % ('layers-share-a-parameter-name' if shared_names else 'own-positional' if own_pos else 'first-parameter'), case,
                           'signature on the class is %s, on the instance %s: binding should remove exactly %s\n%s' % (
                               sigs['class'], sigs['instance'], 'the parameter %r' % sn if own_pos else 'the first parameter', src))
            else:
                stats.cls('binding/ok')
    finally:
        realfn.unload(g)


def check_combination(case, g, src, stats):
    import inspect
    import sigtools
    target, ref = g['TARGET'], g['REF']
    try:
        R = sigtools.signature(target)
    except ValueError as e:
        stats.cls('combination/incompatible')
        return
    except Exception as e:
        stats.fail('C13/combination/retrieval-raised/%s' % type(e).__name__, case, 'sigtools.signature(Combination) raised %s: %s\n%s' % (type(e).__name__, e, src))
        return
    stats.cls('combination/%d-functions' % len(case['funcs']))
    if list(target.functions) != list(g['FUNCS']):
        stats.fail('C13/combination/flatten', case, 'Combination.functions = %r, expected the flattened list %r\n%s' % (target.functions, g['FUNCS'], src))
    rview = universe.sig_view(R)
    rb = cpbind.binder(rview)
    kp = cpbind.kwpassable(rview)
    alln = set(p[0] for f in case['funcs'] for p in f)
    pool = list(dict.fromkeys(list(kp) + sorted(alln) + ['q']))[:8]
    cap = cpbind.poscap(rview)
    I = inspect.signature(target)
    informed = hasattr(type(target), '__signature__') or '__signature__' in vars(target)
    iview = universe.sig_view(I)
    ib = cpbind.binder(iview)
    ikp = cpbind.kwpassable(iview)
    inspect_failed = False
    for npos in range(cap + 2):
        for r in range(4):
            for K in itertools.combinations(pool, r):
                args = [100 + i for i in range(npos)]
                kwargs = dict((k, 'k_' + k) for k in K)
                a, b = outcome(target, args, kwargs), outcome(ref, args, kwargs)
                if a != b:
                    stats.fail('C13/combination/differential', dict(case, shape=[npos, list(K)]),
                               'Combination called with %d positionals and keywords %s gives %r, the chained call gives %r\n%s' % (npos, list(K), a, b, src))
                    return
                if all((k in kp) or (k not in alln) for k in K) and rb.accepts(npos, K) and a[0] == 'TypeError':
                    stats.fail('C13/combination/incoherent', dict(case, shape=[npos, list(K)]),
                               'sigtools.signature(Combination) = %s accepts the non-colliding call with %d positionals and keywords %s, which raises TypeError\n%s' % (
                                   R, npos, list(K), src))
                    return
                # ... also as seen by inspect.signature
                if all((k in ikp) or (k not in alln) for k in K) and ib.accepts(npos, K) and a[0] == 'TypeError' and not inspect_failed:
                    inspect_failed = True
                    stats.fail('C13/combination/inspect-view-accepts-failing-call', dict(case, shape=[npos, list(K)]),
                               'inspect.signature(Combination) = %s (sigtools.signature: %s) accepts the non-colliding call with %d positionals and keywords %s, which raises TypeError\n%s' % (
                                   I, R, npos, list(K), src))
    g['RAISE'][0] = True
    try:
        a, b = outcome(target, [1], {}), outcome(ref, [1], {})
        if a != b:
            stats.fail('C13/combination/exception', case, 'with the last function raising, Combination gives %r, the chain %r\n%s' % (a, b, src))
    finally:
        g['RAISE'][0] = False
    if len(case['funcs']) >= 2:
        stats.nontriv(('combination', case['nest'], tuple(universe.spec_text(tuple(Par(*p) for p in f)) for f in case['funcs'])))
        stats.sample('combination', {'source': src.split('pass\n', 1)[1], 'sigtools': str(R), 'inspect': str(I), 'inspect_informed': informed})


def shard_hyp(arg):
    seed, n = arg
    st = Stats()
    hyp_search(st_case(), check_case, st, n, seed)
    return st


def shared_name_cases():
    """Stacks in which two layers spell one of their own parameters alike (the same decorator applied twice, say): a fixed
    list, run outside the Hypothesis search."""
    out = []
    for kinds in (('decorator', 'decorator'), ('decorator', 'wrapper_decorator'), ('wrapper_decorator', 'decorator')):
        for pos, kwo in (([['p', None]], []), ([], [['k', None]]), ([], [['k', '2']]), ([['p', '1']], [['k', '2']])):
            for placement in ('function', 'method'):
                decos = [{'kind': k, 'pos': [list(x) for x in pos], 'kwo': [list(x) for x in kwo], 'n': 0, 'names': []} for k in kinds]
                out.append({'what': 'stack', 'decos': decos, 'spec': [['x', POK, None, None], ['y', POK, '1', None]], 'placement': placement,
                            'selfname': 'self', 'stepwise': False, 'falsy': False, 'wrapped': 'plain'})
    # the same decorator object twice in a row (with and without parameters of its own)
    for kind in ('decorator', 'wrapper_decorator'):
        for pos, kwo in (([], []), ([], [['k', '2']])):
            for placement in ('function', 'method'):
                decos = [{'kind': kind, 'pos': [list(x) for x in pos], 'kwo': [list(x) for x in kwo], 'n': 0, 'names': []} for _ in range(2)]
                decos[1]['same_as_previous'] = True
                out.append({'what': 'stack', 'decos': decos, 'spec': [['x', POK, None, None], ['y', POK, '1', None]], 'placement': placement,
                            'selfname': 'self', 'stepwise': False, 'falsy': False, 'wrapped': 'plain'})
    return out


def shard_shared(arg):
    cases, = arg
    st = Stats()
    for c in cases:
        check_case(c, st)
    return st


def run(ctx):
    total = Stats()
    n = ctx.pick(1600, 32000)
    total.merge(ctx.pmap(shard_hyp, [(s, n // 16) for s in ctx.shard_seeds(16)]))
    sc = shared_name_cases()
    total.merge(ctx.pmap(shard_shared, [(sc[i::8],) for i in range(8)]))
    return total


def replay(case, stats):
    case = dict(case)
    for k in ('form', 'shape'):
        case.pop(k, None)
    check_case(case, stats)
