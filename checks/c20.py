"""C20 -- support helpers faithfully build and bind signatures.

The expected parameter list is the generator's spec (never a re-parse of the string):
  * s(text) / signatures.signature(f(text)) / func_from_sig(sig) reproduce names, kinds, default values,
    annotation values and the return annotation, eagerly and under `from __future__ import annotations`
    (compared through upgraded_annotation.source_value()), with the native spelling always and with the 7
    modifiers-based read_sig option combinations for signatures without positional-only parameters,
    up to keyword-only order;
  * f(text)(*a, **k) returns {parameter: value} equal to the CPython reference binding, TypeError otherwise;
  * bind_callsig raises TypeError iff the real function does and otherwise returns the same mapping
    (excluding a keyword naming a positional-only parameter alongside **kwargs); sort_callsigs partitions
    identically; make_up_callsigs contains every positional prefix x every keyword subset up to its bounds."""
import itertools

from vlib import cpbind, universe
from vlib.framework import Stats, hyp_search
from vlib.universe import Par, PO, POK, VP, KWO, VK

LEVEL = 'exploration'
RULE = ('E2: every signature of the <=3-named universe over a,b,c (thorough; quick: stride) in 3 decorations (bare; distinct '
        'defaults + annotations on alternating parameters + return annotation; all annotated) x eager/postponed x the 8 read_sig '
        'option combinations (modifiers spellings only without positional-only parameters) x 192 call shapes with '
        'distinguishable values; E1 Hypothesis signatures with <=5 named parameters and arbitrary annotation subsets. '
        'Non-trivial = the signature has >=2 parameters of different kinds; distinct by (signature text, future flag).')
ASSUMPTIONS = ['annotation and default expressions are literals or names bound in the globals handed to support.f']

KW = ('a', 'b', 'c', 'q', 'zz')
ANNS = ['1', "'x'", 'int', 'T']
GLOBALS = {'T': type('T', (), {})}
_SH = None


def shapes():
    global _SH
    if _SH is None:
        _SH = [(n, K) for n in range(6) for r in range(len(KW) + 1) for K in itertools.combinations(KW, r)]
    return _SH


def decorate(spec, mode):
    if mode == 0:
        return spec, None
    out = []
    for i, p in enumerate(spec):
        d = None if p.default is None else repr('d_' + p.name) if i % 2 else str(10 + i)
        a = ANNS[i % len(ANNS)] if (mode == 2 or i % 2 == 0) else None
        out.append(p._replace(default=d, ann=a))
    return tuple(out), ("'ret'" if mode == 1 else 'T')


def text_of(spec):
    return universe.spec_text(spec)


def expect_params(spec):
    g = dict(GLOBALS)
    out = []
    for p in spec:
        out.append((p.name, p.kind,
                    ('NODEFAULT',) if p.default is None else eval(p.default, g),
                    ('NOANN',) if p.ann is None else eval(p.ann, g)))
    return out


def got_params(sig):
    out = []
    for p in sig.parameters.values():
        ann = p.upgraded_annotation.source_value()
        out.append((p.name, int(p.kind),
                    ('NODEFAULT',) if p.default is p.empty else p.default,
                    ('NOANN',) if ann is p.empty else ann))
    return out


def canon(ps):
    return [x for x in ps if x[1] != KWO], sorted((x for x in ps if x[1] == KWO), key=lambda x: x[0])


def check_sig(spec, ret, future, stats, enum=True, shp=None):
    from sigtools import support, signatures
    text = text_of(spec)
    # future_features takes any number of feature names: the one that matters here alone, first or last among others
    ff = [('annotations',), ('annotations', 'division'), ('generator_stop', 'annotations'), ('division', 'annotations', 'generator_stop')][len(text) % 4] if future else ()
    case = {'spec': list(map(list, spec)), 'ret': ret, 'future': future}
    desc = '%r%s%s' % (text, '' if ret is None else ' -> %s' % ret, ' [postponed]' if future else '')
    exp = expect_params(spec)
    exp_ret = ('NOANN',) if ret is None else eval(ret, dict(GLOBALS))
    kinds = set(p.kind for p in spec)
    if len(kinds) >= 2:
        if enum:
            stats.nontriv_enum()
        else:
            stats.nontriv((text, ret, future))
        stats.sample('sig', {'text': text, 'ret': ret, 'postponed': future})
    haspo = PO in kinds
    kw = {} if ret is None else {'ret': ret}
    kn = {PO: 'po', POK: 'pok', VP: 'va', KWO: 'kwo', VK: 'vk'}
    stats.cls('signature/kinds=%s' % ('+'.join(kn[k] for k in (PO, POK, VP, KWO, VK) if k in kinds) or 'none'))
    stats.cls('signature/%s%s%s' % ('postponed' if future else 'eager', ',annotated' if any(p.ann for p in spec) else '',
                                    ',return-annotated' if ret is not None else ''))
    if any(p.default is not None for p in spec):
        stats.cls('signature/with-defaults')
    # --- building: native + option combinations.  One namespace serves every build of the case (as a test module's would), a
    # helper function named like an annotation is built in it before anything is evaluated: builds are independent of each other
    ns = dict(GLOBALS)
    built = []
    for ua, up, uk in itertools.product((False, True), repeat=3):
        if haspo and (ua or up or uk):
            continue
        stats.case()
        opts = dict(use_modifiers_annotate=ua, use_modifiers_posoargs=up, use_modifiers_kwoargs=uk)
        try:
            fn = support.f(text, globals=ns, future_features=ff, **kw, **opts)
            sig1 = signatures.signature(fn)
            sig2 = support.s(text, globals=ns, future_features=ff, **kw, **opts)
        except Exception as e:
            stats.fail('C20/build/raised-%s' % type(e).__name__, dict(case, options=opts), 'support.f/s(%s, %s) raised %s: %s' % (desc, opts, type(e).__name__, e))
            continue
        stats.cls('build/%s' % ('native' if not (ua or up or uk) else 'modifiers'))
        built.append((ua, up, uk, opts, sig1, sig2))
    try:
        support.f('zz9', globals=ns, name='T')
        support.s('zz9', globals=ns, name='int')
    except Exception as e:
        stats.fail('C20/build/raised-%s' % type(e).__name__, dict(case, options={'name': 'T'}), "support.f('zz9', name='T') raised %s: %s" % (type(e).__name__, e))
    for ua, up, uk, opts, sig1, sig2 in built:
        for label, sg_ in (('signatures.signature(f(text))', sig1), ('s(text)', sig2)):
            got = got_params(sg_)
            ok = (got == exp) if not (ua or up or uk) else (canon(got) == canon(exp))
            r = sg_.upgraded_return_annotation.source_value()
            got_ret = ('NOANN',) if r is sg_.empty else r
            if not ok or got_ret != exp_ret:
                stats.fail('C20/build/%s' % ('native' if not (ua or up or uk) else 'modifiers'), dict(case, options=opts, via=label),
                           '%s for %s with %s gives %s (annotations evaluated: %r, return %r); expected %r return %r' % (label, desc, opts, sg_, got, got_ret, exp, exp_ret))
                break
        if future and not ua and any(p.ann for p in spec):
            raw = [p.annotation for p in sig1.parameters.values() if p.annotation is not p.empty]
            if not all(isinstance(x, str) for x in raw):
                stats.fail('C20/build/postponed-not-string', dict(case, options=opts), '%s: raw annotations %r are not strings under the future flag' % (desc, raw))
    # --- a caller's global spelled like a name the helper injects itself (the generated source may refer to sigtools.modifiers):
    # what the caller handed in is what the text denotes (native spelling only: the modifiers spellings need the module)
    if 'T' in text or ret == 'T':
        stats.case()
        stats.cls('build/caller-global-named-modifiers')
        t2 = text.replace('T', 'modifiers')
        kw2 = {} if ret is None else {'ret': ret.replace('T', 'modifiers')}
        ns2 = {'modifiers': GLOBALS['T']}
        try:
            for label, sg_ in (('signatures.signature(f(text))', signatures.signature(support.f(t2, globals=dict(ns2), future_features=ff, **kw2))),
                               ('s(text)', support.s(t2, globals=dict(ns2), future_features=ff, **kw2))):
                r = sg_.upgraded_return_annotation.source_value()
                if got_params(sg_) != exp or (('NOANN',) if r is sg_.empty else r) != exp_ret:
                    stats.fail('C20/build/caller-global-shadowed', dict(case, via=label),
                               "%s for %r with globals={'modifiers': T} denotes %r return %r; the caller's binding gives %r return %r" % (label, t2, got_params(sg_), r, exp, exp_ret))
                    break
        except Exception as e:
            stats.fail('C20/build/raised-%s' % type(e).__name__, dict(case, options={'globals': 'modifiers'}), 'support.f/s(%r, globals={"modifiers": T}) raised %s: %s' % (t2, type(e).__name__, e))
    # --- func_from_sig round trip (native spelling; needs names resolvable without globals: literals only)
    if all(p.ann in (None, '1', "'x'") for p in spec) and ret in (None, "'ret'") and not future:
        stats.case()
        stats.cls('func_from_sig round trip')
        try:
            base = support.s(text, **kw)
            f2 = support.func_from_sig(base)
            s2 = signatures.signature(f2)
            r = s2.upgraded_return_annotation.source_value()
            if got_params(s2) != exp or (('NOANN',) if r is s2.empty else r) != exp_ret:
                stats.fail('C20/func_from_sig', case, 'func_from_sig(s(%s)) has signature %s' % (desc, s2))
        except Exception as e:
            stats.fail('C20/func_from_sig/raised-%s' % type(e).__name__, case, 'func_from_sig(s(%s)) raised %s: %s' % (desc, type(e).__name__, e))
    # --- calling f and bind_callsig
    fn = support.f(text, globals=dict(GLOBALS), future_features=ff, **kw)
    sig = signatures.signature(fn)
    view = universe.spec_view(spec)
    b = cpbind.binder(view)
    defaults = {p[0]: p[2] for p in exp if p[2] != ('NODEFAULT',)}
    has_vk = VK in kinds
    ponames = {p.name for p in spec if p.kind == PO}
    callsigs = []
    for n, K in (shp or shapes()):
        if has_vk and ponames & set(K):
            continue
        args = tuple(100 + i for i in range(n))
        kwargs = {k: 'k_' + k for k in K}
        callsigs.append((args, kwargs))
        stats.extra['calls'] += 1
        try:
            want = b.bind(args, kwargs, defaults)
        except TypeError:
            want = None
        try:
            got = fn(*args, **kwargs)
        except TypeError:
            got = None
        try:
            bound = support.bind_callsig(sig, args, kwargs)
        except TypeError:
            bound = None
        try:
            # any sequence of positional arguments will do
            bound_l = support.bind_callsig(sig, list(args), dict(kwargs))
        except TypeError:
            bound_l = None
        if bound_l != bound:
            stats.fail('C20/bind_callsig/list-arguments', dict(case, args=list(args), kwargs=kwargs),
                       'bind_callsig((%s), %r, %r) -> %r with a tuple of arguments but %r with a list' % (text, args, kwargs, bound, bound_l))
            break
        stats.cls('call/%s' % ('rejected' if want is None else 'accepted%s' % (',keywords' if K else '')))
        if got != want:
            stats.fail('C20/f-call', dict(case, args=list(args), kwargs=kwargs), 'f(%s)(*%r, **%r) -> %r, CPython reference binding -> %r' % (desc, args, kwargs, got, want))
            break
        if bound != want:
            stats.fail('C20/bind_callsig/%s' % ('accepts-invalid' if want is None else 'rejects-valid' if bound is None else 'mapping'),
                       dict(case, args=list(args), kwargs=kwargs), 'bind_callsig((%s), %r, %r) -> %r, really calling -> %r' % (text, args, kwargs, bound, want))
            break
    stats.case()
    valid, invalid = support.sort_callsigs(sig, callsigs)
    want_valid = [(a, k) for a, k in callsigs if b.accepts(len(a), tuple(k))]
    if [(a, k) for a, k, _ in valid] != want_valid or len(valid) + len(invalid) != len(callsigs):
        stats.fail('C20/sort_callsigs', case, 'sort_callsigs((%s)) partitions %d/%d valid/invalid, reference says %d valid' % (text, len(valid), len(invalid), len(want_valid)))
    # --- make_up_callsigs completeness
    stats.case()
    for extra in (0, 2):
        cs = support.make_up_callsigs(sig, extra=extra)
        named = [p.name for p in spec if p.kind in (PO, POK, KWO)] + ['__make_up_callsigs__extra_%d' % i for i in range(extra)]
        got = {(len(a), frozenset(k)) for a, k in cs}
        # "contains": the collection can be gone through (and asked) more than once
        if {(len(a), frozenset(k)) for a, k in cs} != got:
            stats.fail('C20/make_up_callsigs/one-shot', dict(case, extra=extra), 'make_up_callsigs((%s), extra=%d): going through the result a second time gives something else (%d call shapes the first time)' % (text, extra, len(got)))
        miss = None
        # keyword subsets are drawn from the named parameters, the extra names and the spellings of the star parameters
        kwpool = named + [p.name for p in spec if p.kind in (VP, VK)]
        for n in range(len(named) + 1):
            for r in range(len(kwpool) + 1):
                for K in itertools.combinations(kwpool, r):
                    if (n, frozenset(K)) not in got:
                        miss = (n, K)
                        break
                if miss:
                    break
            if miss:
                break
        if miss:
            stats.fail('C20/make_up_callsigs', dict(case, extra=extra), 'make_up_callsigs((%s), extra=%d) lacks %d positionals x keywords %s' % (text, extra, miss[0], list(miss[1])))
        # prefixes really are prefixes of the declared order
        for a, k in cs:
            if tuple(a) != tuple(named[:len(a)]):
                stats.fail('C20/make_up_callsigs/not-a-prefix', dict(case, extra=extra), 'make_up_callsigs((%s)) yields positional tuple %r' % (text, a))
                break


class _Anything(object):
    """Compares equal to everything (like unittest.mock.ANY): a default is a default whatever its == says."""
    def __eq__(self, other):
        return True

    def __ne__(self, other):
        return False

    __hash__ = object.__hash__

    def __repr__(self):
        return 'ANY'


def check_permissive_defaults(stats):
    from sigtools import support, signatures
    ANY = _Anything()
    for text in ('a, b=D', 'a, /, b=D, *, c=D', '*args, c=D, **kwargs', 'b=D'):
        stats.case()
        stats.cls('permissive-equality defaults')
        case = {'kind': 'permissive-default', 'text': text}
        try:
            fn = support.f(text, globals={'D': ANY})
            sig = signatures.signature(fn)
            args = (1,) if text.startswith('a') else ()
            real = fn(*args)
            bound = support.bind_callsig(sig, args, {})
            valid, invalid = support.sort_callsigs(sig, [(args, {})])
        except Exception as e:
            stats.fail('C20/permissive-default/raised-%s' % type(e).__name__, case,
                       'f(%r, globals={"D": ANY}): calling it without the defaulted parameters, bind_callsig or sort_callsigs raised %s: %s' % (text, type(e).__name__, e))
            continue
        same = set(real) == set(bound) and all(real[k] is bound[k] or real[k] == bound[k] for k in real)
        if not same or len(valid) != 1 or invalid:
            stats.fail('C20/permissive-default', case, 'f(%r) called with %r returns %r; bind_callsig gives %r, sort_callsigs %d valid / %d invalid' % (
                text, args, real, bound, len(valid), len(invalid)))
        else:
            stats.nontriv(('permissive-default', text))


def shard_permissive(arg):
    st = Stats()
    check_permissive_defaults(st)
    return st


def shard(arg):
    specs, = arg
    st = Stats()
    for spec in specs:
        for mode in (0, 1, 2):
            sp, ret = decorate(spec, mode)
            for future in (False, True):
                if mode == 0 and future:
                    continue
                check_sig(sp, ret, future, st)
    return st


HN = ('a', 'b', 'self', 'd', 'e')      # (a parameter may well be called self)


def st_case():
    from hypothesis import strategies as st

    @st.composite
    def build(draw):
        spec = draw(universe.st_spec(HN, 5, ('args',), ('kwargs',), default_exprs=('1', "'dv'", '3', '()', 'frozenset()', 'None'), ann_exprs=tuple(ANNS)))
        ret = draw(st.sampled_from([None, "'ret'", 'T', '1']))
        return (spec, ret, draw(st.booleans()))
    return build()


_hs = {}


def check_hyp(case, stats):
    spec, ret, future = case
    kn = tuple(p.name for p in spec if p.kind in (PO, POK, KWO))[:5] + ('q',)
    key = (kn, cpbind.poscap(universe.spec_view(spec)) + 1)
    if key not in _hs:
        if len(_hs) > 100:
            _hs.clear()
        _hs[key] = [(m, K) for m in range(key[1] + 1) for r in range(4) for K in itertools.combinations(kn, r)]
    check_sig(spec, ret, future, stats, enum=False, shp=_hs[key])


def shard_hyp(arg):
    seed, n = arg
    st = Stats()
    hyp_search(st_case(), check_hyp, st, n, seed)
    return st


def run(ctx):
    total = Stats()
    total.merge(ctx.pmap(shard_permissive, [0]))
    U3 = universe.enum_specs(('a', 'b', 'c'), 3, ('args',), ('kwargs',))
    specs = ctx.stride(U3, ctx.pick(0.08, 1.0))
    total.merge(ctx.pmap(shard, [(specs[i::128],) for i in range(128) if specs[i::128]]))
    if not ctx.quick:
        total.exhaustive['signatures of the <=3-named universe x 3 decorations x eager/postponed x read_sig options'] = len(U3)
    nh = ctx.pick(1600, 24000)
    total.merge(ctx.pmap(shard_hyp, [(s, nh // 16) for s in ctx.shard_seeds(16)]))
    return total


def replay(case, stats):
    if case.get('kind') == 'permissive-default':
        check_permissive_defaults(stats)
        return
    spec = tuple(Par(*p) for p in case['spec'])
    check_hyp((spec, case['ret'], case['future']), stats)
