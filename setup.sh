#!/bin/sh
# MANIFEST.setup_cmd: offline, idempotent. sigtools is imported straight from /repo's working
# tree (pure Python, editable install), so there is nothing to build; only make sure
# Hypothesis is importable by /venv/bin/python.
set -e
if ! /venv/bin/python -c "import hypothesis" 2>/dev/null; then
  PIP_NO_INDEX=1 /venv/bin/pip install --no-index --find-links /opt/veriftools/wheels hypothesis
fi
/venv/bin/python -c "import hypothesis, sys; print('hypothesis', hypothesis.__version__, 'python', sys.version.split()[0])"
mkdir -p "$(dirname "$0")/evidence" "$(dirname "$0")/replays"
